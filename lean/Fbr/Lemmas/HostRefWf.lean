/-
  Fbr.Lemmas.HostRefWf — descriptor / file-handle bookkeeping of the reference FS.

  * `Wf`: descriptors and handle ids are allocated below their counters, one handle id per inode;
  * `Ext h h'`: `h'` extends `h` — every descriptor / handle of `h` still denotes the same object,
    the export root and the sentinel set are the same;
  * every call keeps `Wf` and extends the state (`wf_step`);
  * what the answers of the calls used by `do_lookup` say about the state (`*_ans`).
-/
import Fbr.Lemmas.HostRefGood

namespace Fbr.Host.Ref

/-- descriptors and handle ids are allocated below their counters; an inode has one handle id -/
structure Wf (h : State) : Prop where
  fdLt : ∀ f e, h.fds f = some e → f < h.nextFd
  hLt : ∀ k o, h.handles k = some o → k < h.nextHandle
  hInj : ∀ k k' o, h.handles k = some o → h.handles k' = some o → k = k'

/-- `h'` extends `h`: what a descriptor / handle denotes never changes -/
structure Ext (h h' : State) : Prop where
  root : h'.exportRoot = h.exportRoot
  sent : h'.sent = h.sent
  fds : ∀ f o, fdObj h f = some o → fdObj h' f = some o
  handles : ∀ k o, h.handles k = some o → h'.handles k = some o

theorem Ext.refl (h : State) : Ext h h := ⟨rfl, rfl, fun _ _ x => x, fun _ _ x => x⟩

theorem Ext.trans {a b c : State} (h1 : Ext a b) (h2 : Ext b c) : Ext a c :=
  ⟨by rw [h2.root, h1.root], by rw [h2.sent, h1.sent], fun f o x => h2.fds f o (h1.fds f o x),
   fun k o x => h2.handles k o (h1.handles k o x)⟩

/-- the descriptor / handle part of the state is untouched -/
def Same (h h' : State) : Prop :=
  h'.fds = h.fds ∧ h'.nextFd = h.nextFd ∧ h'.handles = h.handles ∧ h'.nextHandle = h.nextHandle ∧
  h'.exportRoot = h.exportRoot ∧ h'.sent = h.sent

theorem Same.refl (h : State) : Same h h := ⟨rfl, rfl, rfl, rfl, rfl, rfl⟩

theorem Same.trans {a b c : State} (h1 : Same a b) (h2 : Same b c) : Same a c := by
  obtain ⟨a1, a2, a3, a4, a5, a6⟩ := h1
  obtain ⟨b1, b2, b3, b4, b5, b6⟩ := h2
  exact ⟨by rw [b1, a1], by rw [b2, a2], by rw [b3, a3], by rw [b4, a4], by rw [b5, a5], by rw [b6, a6]⟩

theorem same_setNode (h : State) (o : Obj) (n : Node) : Same h (setNode h o n) := ⟨rfl, rfl, rfl, rfl, rfl, rfl⟩

theorem same_modNode (h : State) (o : Obj) (f : Node → Node) : Same h (modNode h o f) := by
  unfold modNode; split
  · exact same_setNode _ _ _
  · exact Same.refl _

theorem same_createIn (h : State) (d : Obj) (dn : Node) (nm : Name) (k : Kind) (p r : Nat) (data : List UInt8) :
    Same h (createIn h d dn nm k p r data).1 := ⟨rfl, rfl, rfl, rfl, rfl, rfl⟩

theorem same_setTimes (h : State) (o : Obj) (a b c d : Nat) : Same h (setTimes h o a b c d).2 := by
  unfold setTimes; split
  · exact Same.refl _
  · exact same_setNode _ _ _

theorem same_chmodObj (h : State) (o : Obj) (m : Nat) : Same h (chmodObj h o m).2 := by
  unfold chmodObj; split
  · exact Same.refl _
  · split
    · exact Same.refl _
    · exact same_setNode _ _ _

theorem same_renameApply (h : State) (a b : Obj) (x y : Name) (c : Obj) (cn : Node) (t : Option Obj) :
    Same h (renameApply h a b x y c cn t) := by
  unfold renameApply
  have h1 : Same h (match t with
      | some t => modNode h t (fun tn => { tn with nlink := if tn.kind == .dir then 0 else tn.nlink - 1 })
      | none => h) := by
    cases t
    · exact Same.refl _
    · exact same_modNode _ _ _
  have h2 := h1.trans (same_modNode _ a (fun n => removeEntry n x))
  have h3 := h2.trans (same_modNode _ b (fun n => { removeEntry n y with entries := (y, c) :: (removeEntry n y).entries }))
  dsimp only
  split
  · exact h3.trans (same_modNode _ _ _)
  · exact h3

/-- the step relation proved for every call: `Wf` is kept and the state is extended -/
def Adv (h h' : State) : Prop := Wf h → Wf h' ∧ Ext h h'

theorem adv_of_same {h h' : State} (s : Same h h') : Adv h h' := by
  obtain ⟨a1, a2, a3, a4, a5, a6⟩ := s
  intro w
  refine ⟨⟨?_, ?_, ?_⟩, ⟨a5, a6, ?_, ?_⟩⟩
  · intro f e he; rw [a1] at he; rw [a2]; exact w.fdLt f e he
  · intro k o hk; rw [a3] at hk; rw [a4]; exact w.hLt k o hk
  · intro k k' o hk hk'; rw [a3] at hk hk'; exact w.hInj k k' o hk hk'
  · intro f o hf; unfold fdObj at hf ⊢; rw [a1]; exact hf
  · intro k o hk; rw [a3]; exact hk

theorem adv_refl (h : State) : Adv h h := adv_of_same (Same.refl h)

theorem adv_newFd {h h1 : State} (s : Same h h1) (o : Obj) (fl : Nat) : Adv h (newFd h1 o fl).2 := by
  obtain ⟨a1, a2, a3, a4, a5, a6⟩ := s
  intro w
  refine ⟨⟨?_, ?_, ?_⟩, ⟨a5, a6, ?_, ?_⟩⟩
  · intro f e he
    simp only [newFd] at he ⊢
    split at he
    · rename_i hf; rw [hf]; exact Nat.lt_succ_self _
    · rw [a1] at he; rw [a2]; exact Nat.lt_succ_of_lt (w.fdLt f e he)
  · intro k o' hk
    have hk' : h.handles k = some o' := by rw [← a3]; exact hk
    show k < h1.nextHandle
    rw [a4]; exact w.hLt k o' hk'
  · intro k k' o' hk hk'
    have e1 : h.handles k = some o' := by rw [← a3]; exact hk
    have e2 : h.handles k' = some o' := by rw [← a3]; exact hk'
    exact w.hInj k k' o' e1 e2
  · intro f o' hf
    unfold fdObj at hf ⊢
    simp only [newFd]
    cases he : h.fds f with
    | none => rw [he] at hf; cases hf
    | some e =>
      have hlt := w.fdLt f e he
      have hne : f ≠ h1.nextFd := by rw [a2]; exact Nat.ne_of_lt hlt
      rw [if_neg hne, a1]; exact hf
  · intro k o' hk
    show h1.handles k = some o'
    rw [a3]; exact hk

theorem adv_openObj {h h1 : State} (s : Same h h1) (o : Obj) (fl : Nat) : Adv h (openObj h1 o fl).2 := by
  unfold openObj
  split
  · exact adv_of_same s
  · split
    · exact adv_of_same s
    · split
      · exact adv_newFd (s.trans (same_setNode _ _ _)) o fl
      · exact adv_newFd s o fl

/-- replacing a descriptor's entry by one for the same object (lseek, F_SETFL) -/
theorem adv_updFd (h : State) (f : Fd) (e e' : FdEnt) (he : h.fds f = some e) (ho : e'.obj = e.obj) :
    Adv h { h with fds := fun x => if x = f then some e' else h.fds x } := by
  intro w
  refine ⟨⟨?_, w.hLt, w.hInj⟩, ⟨rfl, rfl, ?_, fun _ _ x => x⟩⟩
  · intro f' e'' h'
    simp only at h'
    split at h'
    · rename_i hf; rw [hf]; exact w.fdLt f e he
    · exact w.fdLt f' e'' h'
  · intro f' o hf
    unfold fdObj at hf ⊢
    simp only
    split
    · rename_i hff; rw [hff, he] at hf; simp only [Option.map] at hf ⊢; rw [ho]; exact hf
    · exact hf

theorem find_none_range (n : Nat) (p : Nat → Bool) (h : (List.range n).find? p = none) (k : Nat) (hk : k < n) : p k = false := by
  have := List.find?_eq_none.mp h k (List.mem_range.mpr hk)
  simpa using this

/-- a new handle id for an inode that has none -/
theorem adv_newHandle (h : State) (o : Obj)
    (hn : (List.range h.nextHandle).find? (fun k => h.handles k == some o) = none) :
    Adv h { h with handles := fun k => if k = h.nextHandle then some o else h.handles k, nextHandle := h.nextHandle + 1 } := by
  intro w
  have hno : ∀ k, h.handles k ≠ some o := by
    intro k hk
    have := find_none_range _ _ hn k (w.hLt k o hk)
    simp [hk] at this
  refine ⟨⟨w.fdLt, ?_, ?_⟩, ⟨rfl, rfl, fun _ _ x => x, ?_⟩⟩
  · intro k o' hk
    simp only at hk ⊢
    split at hk
    · rename_i e; rw [e]; exact Nat.lt_succ_self _
    · exact Nat.lt_succ_of_lt (w.hLt k o' hk)
  · intro k k' o' hk hk'
    simp only at hk hk'
    split at hk <;> split at hk'
    · rename_i e1 e2; rw [e1, e2]
    · cases hk; exact absurd hk' (hno k')
    · cases hk'; exact absurd hk (hno k)
    · exact w.hInj k k' o' hk hk'
  · intro k o' hk
    simp only
    have hlt := w.hLt k o' hk
    rw [if_neg (Nat.ne_of_lt hlt)]; exact hk

theorem same_creds (h : State) (c : Creds) : Same h { h with creds := c } := ⟨rfl, rfl, rfl, rfl, rfl, rfl⟩

end Fbr.Host.Ref

namespace Fbr.Host.Ref

/-- every call of the reference FS keeps the descriptor / handle tables well-formed and only
    extends them -/
theorem adv_stepCore (s : State) (c : HCall) : Adv s (stepCore s c).2 := by
  cases c
  case openat dfd name fl m =>
    simp only [stepCore]
    split
    · exact adv_refl s
    · split
      · split
        · exact adv_refl s
        · exact adv_newFd (same_createIn ..) _ _
      · split
        · exact adv_refl s
        · split
          · exact adv_newFd (Same.refl s) _ _
          · exact adv_openObj (Same.refl s) _ _
  case reopen f fl md =>
    simp only [stepCore]
    split
    · exact adv_refl s
    · split
      · exact adv_newFd (Same.refl s) _ _
      · exact adv_openObj (Same.refl s) _ _
  case openByHandle k fl md =>
    simp only [stepCore]
    repeat' split
    all_goals first | exact adv_refl s | exact adv_newFd (Same.refl s) _ _ | exact adv_openObj (Same.refl s) _ _
  case nameToHandle f fl sz =>
    simp only [stepCore]
    split
    · exact adv_refl s
    · split
      · exact adv_refl s
      · split
        · exact adv_refl s
        · rename_i hn
          exact adv_newHandle s _ hn
  case lseek f o w =>
    simp only [stepCore]
    split
    · exact adv_refl s
    · rename_i e he
      split
      · exact adv_refl s
      · split
        · exact adv_refl s
        · exact adv_updFd s f e _ he rfl
  case setfl f fl =>
    simp only [stepCore]
    split
    · exact adv_refl s
    · rename_i e he
      exact adv_updFd s f e _ he rfl
  case renameat2 a x b y fl =>
    simp only [stepCore]
    repeat' split
    all_goals first | exact adv_refl s | exact adv_of_same (same_renameApply ..)
  all_goals
    simp only [stepCore]
    repeat' split
    all_goals first
      | exact adv_refl s
      | exact adv_of_same (same_setNode ..)
      | exact adv_of_same (same_createIn ..)
      | exact adv_of_same (same_setTimes ..)
      | exact adv_of_same (same_chmodObj ..)
      | exact adv_of_same (same_creds ..)
      | exact adv_of_same ((same_setNode ..).trans (same_setNode ..))

theorem step_fst (s : State) (c : HCall) : (step s c).1 = (stepCore s c).1 := by
  unfold step; split <;> rfl

theorem same_step (s : State) (c : HCall) : Same (stepCore s c).2 (step s c).2 := by
  unfold step; split
  · exact Same.refl _
  · exact same_creds _ _

/-- **every call** keeps `Wf` and extends the state -/
theorem wf_step (s : State) (c : HCall) (w : Wf s) : Wf (step s c).2 ∧ Ext s (step s c).2 := by
  have h1 := adv_stepCore s c w
  have h2 := adv_of_same (same_step s c) h1.1
  exact ⟨h2.1, h1.2.trans h2.2⟩

/-! ### what the answers say -/

theorem fdObj_step (s : State) (c : HCall) (f : Fd) : fdObj (step s c).2 f = fdObj (stepCore s c).2 f := by
  unfold fdObj; rw [(same_step s c).1]

theorem handles_step (s : State) (c : HCall) : (step s c).2.handles = (stepCore s c).2.handles := (same_step s c).2.2.1

theorem newFd_ans (s : State) (o : Obj) (fl : Nat) (f : Fd) (o' : Obj) (h : (newFd s o fl).1 = .fd f o') :
    o' = o ∧ fdObj (newFd s o fl).2 f = some o := by
  simp only [newFd] at h
  cases h
  simp [newFd, fdObj]

theorem openObj_ans (s : State) (o : Obj) (fl : Nat) (f : Fd) (o' : Obj) (h : (openObj s o fl).1 = .fd f o') :
    o' = o ∧ fdObj (openObj s o fl).2 f = some o := by
  unfold openObj at h ⊢
  cases hn : s.nodes o with
  | none => simp only [hn] at h; cases h
  | some n =>
    simp only [hn] at h ⊢
    cases he : openErr s n fl with
    | some e => simp only [he] at h; cases h
    | none =>
      simp only [he] at h ⊢
      by_cases hc : (has fl O_TRUNC && n.kind == .reg) = true
      · rw [if_pos hc] at h ⊢; exact newFd_ans _ o fl f o' h
      · rw [if_neg hc] at h ⊢; exact newFd_ans _ o fl f o' h

/-- the lookup `openat(dfd, name, O_NOFOLLOW|O_CLOEXEC|O_PATH)`: the returned descriptor denotes the
    returned object -/
theorem openat_path_ans (s : State) (dfd : Fd) (name : Name) (f : Fd) (o : Obj)
    (h : (step s (.openat dfd name (O_NOFOLLOW ||| O_CLOEXEC ||| O_PATH) 0)).1 = .fd f o) :
    fdObj (step s (.openat dfd name (O_NOFOLLOW ||| O_CLOEXEC ||| O_PATH) 0)).2 f = some o := by
  rw [step_fst] at h
  rw [fdObj_step]
  have hflags : (has (O_NOFOLLOW ||| O_CLOEXEC ||| O_PATH) O_CREAT && has (O_NOFOLLOW ||| O_CLOEXEC ||| O_PATH) O_EXCL) = false := by decide
  have hp : has (O_NOFOLLOW ||| O_CLOEXEC ||| O_PATH) O_PATH = true := by decide
  simp only [stepCore, hflags, Bool.false_eq_true, if_false, hp, if_true] at h ⊢
  cases hd : fdObj s dfd with
  | none => simp only [hd] at h; cases h
  | some d =>
    simp only [hd] at h ⊢
    cases hr : resolve s d name (!has (O_NOFOLLOW ||| O_CLOEXEC ||| O_PATH) O_NOFOLLOW) with
    | error e => simp only [hr] at h; cases h
    | ok o' =>
      simp only [hr] at h ⊢
      have := newFd_ans s o' _ f o h
      rw [this.1]; exact this.2

/-- `open_by_handle_at(.., O_PATH)`: the handle denoted the returned object, so does the descriptor -/
theorem openByHandle_path_ans (s : State) (k md : Nat) (f : Fd) (o : Obj)
    (h : (step s (.openByHandle k O_PATH md)).1 = .fd f o) :
    s.handles k = some o ∧ fdObj (step s (.openByHandle k O_PATH md)).2 f = some o := by
  rw [step_fst] at h
  rw [fdObj_step]
  have hp : has O_PATH O_PATH = true := by decide
  simp only [stepCore, hp, if_true] at h ⊢
  by_cases hu : (s.creds.euid != 0) = true
  · rw [if_pos hu] at h; cases h
  · rw [if_neg hu] at h ⊢
    cases hk : s.handles k with
    | none => simp only [hk] at h; cases h
    | some o' =>
      simp only [hk] at h ⊢
      cases hn : s.nodes o' with
      | none => simp only [hn] at h; cases h
      | some n =>
        simp only [hn] at h ⊢
        by_cases hl : (n.nlink == 0) = true
        · rw [if_pos hl] at h; cases h
        · rw [if_neg hl] at h ⊢
          have := newFd_ans s o' _ f o h
          rw [this.1]; exact ⟨rfl, this.2⟩

/-- `statx(fd, "", ..)` reports the object the descriptor denotes -/
theorem statx_ans (s : State) (f : Fd) (a b : Nat) (st : Stat) (h : (step s (.statx f [] a b)).1 = .st st) :
    fdObj s f = some st.obj := by
  rw [step_fst] at h
  simp only [stepCore] at h
  cases ho : fdObj s f with
  | none => simp only [ho] at h; cases h
  | some o =>
    simp only [ho, List.isEmpty_nil, if_true] at h
    cases hn : s.nodes o with
    | none => simp only [hn] at h; cases h
    | some n => simp only [hn] at h; cases h; rfl

/-- `name_to_handle_at(fd, "")` returns a handle id that denotes the descriptor's object -/
theorem nameToHandle_ans (s : State) (f : Fd) (fl sz k : Nat) (h : (step s (.nameToHandle f fl sz)).1 = .handle k) :
    ∃ o, fdObj s f = some o ∧ (step s (.nameToHandle f fl sz)).2.handles k = some o := by
  rw [step_fst] at h
  rw [handles_step]
  simp only [stepCore] at h ⊢
  cases ho : fdObj s f with
  | none => simp only [ho] at h; cases h
  | some o =>
    refine ⟨o, rfl, ?_⟩
    simp only [ho] at h ⊢
    by_cases hz : (sz == 0) = true
    · rw [if_pos hz] at h; cases h
    · rw [if_neg hz] at h ⊢
      cases hf : (List.range s.nextHandle).find? (fun h => s.handles h == some o) with
      | some k' =>
        simp only [hf] at h ⊢
        cases h
        have := List.find?_some hf
        simpa using this
      | none =>
        simp only [hf] at h ⊢
        cases h
        simp

/-- the export root is a constant of the host -/
theorem stepCore_exportRoot (s : State) (c : HCall) : (stepCore s c).2.exportRoot = s.exportRoot := by
  have hopen : ∀ (st : State) (o : Obj) (fl : Nat), (openObj st o fl).2.exportRoot = st.exportRoot := by
    intro st o fl; unfold openObj; repeat' split
    all_goals rfl
  have htimes : ∀ (st : State) (o : Obj) (a b c d : Nat), (setTimes st o a b c d).2.exportRoot = st.exportRoot :=
    fun st o a b c d => (same_setTimes st o a b c d).2.2.2.2.1
  have hchmod : ∀ (st : State) (o : Obj) (m : Nat), (chmodObj st o m).2.exportRoot = st.exportRoot :=
    fun st o m => (same_chmodObj st o m).2.2.2.2.1
  have hren : ∀ (st : State) (a b : Obj) (x y : Name) (c : Obj) (cn : Node) (t : Option Obj),
      (renameApply st a b x y c cn t).exportRoot = st.exportRoot :=
    fun st a b x y c cn t => (same_renameApply st a b x y c cn t).2.2.2.2.1
  cases c <;> simp only [stepCore]
  all_goals (repeat' split)
  all_goals first | rfl | exact hopen _ _ _ | exact htimes _ _ _ _ _ _ | exact hchmod _ _ _ | exact hren _ _ _ _ _ _ _ _

theorem step_exportRoot (s : State) (c : HCall) : (step s c).2.exportRoot = s.exportRoot := by
  rw [(same_step s c).2.2.2.2.1]; exact stepCore_exportRoot s c

end Fbr.Host.Ref
