/-
  Hoare-style reasoning for the state-and-error monad of Fbr.Ovl, and the generic invariant
  "every real inode in the forest satisfies φ, every logged call satisfies ψ, the disk satisfies D"
  preserved by every function of the model.  Instantiated in Fbr.Thm.C10 for
  `lowers_never_mutated` (φ r := r.inUpper → r.layer = 0) and for the no-upper configuration
  (φ r := r.inUpper = false).
-/
import Fbr.Ovl

namespace Fbr.Ovl

/-- from `P`, `f` ends in `Q a s'` (success) or in `E s'` (error) -/
def Triple {α : Type} (P : St → Prop) (f : M α) (Q : α → St → Prop) (E : St → Prop) : Prop :=
  ∀ s, P s → (∀ a s', f s = .ok a s' → Q a s') ∧ (∀ e s', f s = .err e s' → E s')

namespace Triple
variable {α β : Type} {P P' : St → Prop} {Q Q' : α → St → Prop} {R : β → St → Prop} {E E' : St → Prop}

theorem pure' {a : α} (h : ∀ s, P s → Q a s) : Triple P (pure a : M α) Q E := by
  intro s hs
  refine ⟨fun a' s' h' => ?_, fun e s' h' => ?_⟩
  · cases h'; exact h s hs
  · cases h'

theorem bind {f : M α} {g : α → M β} (hf : Triple P f Q E) (hg : ∀ a, Triple (Q a) (g a) R E) :
    Triple P (f >>= g) R E := by
  intro s hs
  have h1 := hf s hs
  have hb : (f >>= g) s = M.bind f g s := rfl
  rw [hb]
  unfold M.bind
  cases hfs : f s with
  | ok a s1 =>
    have h2 := hg a s1 (h1.1 a s1 hfs)
    exact h2
  | err e s1 =>
    refine ⟨fun a' s' h' => ?_, fun e' s' h' => ?_⟩
    · cases h'
    · cases h'; exact h1.2 _ _ hfs

theorem fail' {e : Nat} (h : ∀ s, P s → E s) : Triple P (fail e : M α) Q E := by
  intro s hs
  refine ⟨fun a' s' h' => ?_, fun e s' h' => ?_⟩
  · cases h'
  · cases h'; exact h s hs

theorem conseq {f : M α} (h : Triple P f Q E) (hP : ∀ s, P' s → P s) (hQ : ∀ a s, Q a s → Q' a s)
    (hE : ∀ s, E s → E' s) : Triple P' f Q' E' := by
  intro s hs
  have h1 := h s (hP s hs)
  exact ⟨fun a s' h' => hQ a s' (h1.1 a s' h'), fun e s' h' => hE s' (h1.2 e s' h')⟩

theorem pre {f : M α} (h : Triple P f Q E) (hP : ∀ s, P' s → P s) : Triple P' f Q E :=
  h.conseq hP (fun _ _ h => h) (fun _ h => h)

theorem post {f : M α} (h : Triple P f Q E) (hQ : ∀ a s, Q a s → Q' a s) : Triple P f Q' E :=
  h.conseq (fun _ h => h) hQ (fun _ h => h)

/-- move a state-independent fact of the precondition into the context -/
theorem pure_pre {F : Prop} {f : M α} (h : F → Triple P f Q E) : Triple (fun s => F ∧ P s) f Q E :=
  fun s hs => h hs.1 s hs.2

theorem getSt' {Q : St → St → Prop} (h : ∀ s, P s → Q s s) : Triple P getSt Q E := by
  intro s hs
  refine ⟨fun a' s' h' => ?_, fun e s' h' => ?_⟩
  · cases h'; exact h s hs
  · cases h'

theorem modifySt' {g : St → St} {Q : Unit → St → Prop} (h : ∀ s, P s → Q () (g s)) :
    Triple P (modifySt g) Q E := by
  intro s hs
  refine ⟨fun a' s' h' => ?_, fun e s' h' => ?_⟩
  · cases h'; exact h s hs
  · cases h'

theorem ignoreErr' {f : M Unit} {Q : Unit → St → Prop} (h : Triple P f Q (Q ())) :
    Triple P (ignoreErr f) Q E := by
  intro s hs
  have h1 := h s hs
  unfold ignoreErr
  cases hfs : f s with
  | ok a s1 =>
    refine ⟨fun a' s' h' => ?_, fun e s' h' => ?_⟩
    · cases h'; exact h1.1 _ _ hfs
    · cases h'
  | err e s1 =>
    refine ⟨fun a' s' h' => ?_, fun e s' h' => ?_⟩
    · cases h'; exact h1.2 _ _ hfs
    · cases h'

theorem catchEnoent' {f : M α} {Q : Option α → St → Prop}
    (h : Triple P f (fun a s => Q (some a) s) (fun s => Q none s ∧ E s)) :
    Triple P (catchEnoent f) Q E := by
  intro s hs
  have h1 := h s hs
  unfold catchEnoent
  cases hfs : f s with
  | ok a s1 =>
    refine ⟨fun a' s' h' => ?_, fun e s' h' => ?_⟩
    · cases h'; exact h1.1 _ _ hfs
    · cases h'
  | err e s1 =>
    have h2 := h1.2 _ _ hfs
    by_cases he : e = ENOENT
    · simp only [he, if_true]
      refine ⟨fun a' s' h' => ?_, fun e s' h' => ?_⟩
      · cases h'; exact h2.1
      · cases h'
    · simp only [he, if_false]
      refine ⟨fun a' s' h' => ?_, fun e s' h' => ?_⟩
      · cases h'
      · cases h'; exact h2.2

theorem whenM' {c : Bool} {f : M Unit} {Q : Unit → St → Prop} (hf : c = true → Triple P f Q E)
    (hn : c = false → ∀ s, P s → Q () s) : Triple P (whenM c f) Q E := by
  unfold whenM
  cases c with
  | true => exact hf rfl
  | false => exact Triple.pure' (hn rfl)

theorem ite' {c : Prop} [Decidable c] {f g : M α} (ht : c → Triple P f Q E) (he : ¬c → Triple P g Q E) :
    Triple P (if c then f else g) Q E := by
  split
  · exact ht ‹_›
  · exact he ‹_›

theorem forNames' {f : Name → M Unit} {I : St → Prop} (h : ∀ n, Triple I (f n) (fun _ => I) I) :
    ∀ l, Triple I (forNames f l) (fun _ => I) I
  | [] => Triple.pure' fun _ h => h
  | n :: rest => by
    unfold forNames
    exact Triple.bind (h n) fun _ => forNames' h rest

theorem mapNames' {f : Name → M α} {I : St → Prop} (h : ∀ n, Triple I (f n) (fun _ => I) I) :
    ∀ l, Triple I (mapNames f l) (fun _ => I) I
  | [] => Triple.pure' fun _ h => h
  | n :: rest => by
    unfold mapNames
    refine Triple.bind (h n) fun _ => ?_
    refine Triple.bind (mapNames' h rest) fun _ => ?_
    exact Triple.pure' fun _ h => h

/-- prove a triple about a non-monadic definition by looking at its two outcomes -/
theorem of_cases {f : M α} (h : ∀ s, P s → (∀ a s', f s = .ok a s' → Q a s') ∧ (∀ e s', f s = .err e s' → E s')) :
    Triple P f Q E := h

end Triple

/-! ## the generic invariant -/

/-- a layer is a tree: whatever exists lies in a directory -/
def TreeOK (L : Layer) : Prop := ∀ n p, (L (n :: p)).isAbsent = false → (L p).isDir = true

/-- one successful host call: the layer root stays a directory and the layer stays a tree -/
def HostStep (L L' : Layer) : Prop :=
  ((L []).isDir = true → (L' []).isDir = true) ∧ (TreeOK L → TreeOK L')

/-- a host call keeps the layer well-formed -/
def KeepRoot (f : Layer → Except Nat Layer) : Prop := ∀ L L', f L = .ok L' → HostStep L L'

theorem set_root {L : Layer} {n : Name} {p : Path} {nd : Node} : (L.set (n :: p) nd) [] = L [] := by
  simp [Layer.set]

theorem updFile_isDir (L : Layer) (id : Nat) (g : Node → Node) (hg : ∀ nd, (g nd).isDir = nd.isDir) (q : Path) :
    ((L.updFile id g) q).isDir = (L q).isDir := by
  unfold Layer.updFile
  cases hq : L q with
  | file i m c x =>
    simp only []
    split
    · exact hg _
    · rfl
  | other i m =>
    simp only []
    split
    · exact hg _
    · rfl
  | absent => rfl
  | whiteout => rfl
  | symlink t => rfl
  | dir m o x => rfl

theorem updFile_isAbsent (L : Layer) (id : Nat) (g : Node → Node) (hg : ∀ nd, (g nd).isAbsent = nd.isAbsent) (q : Path) :
    ((L.updFile id g) q).isAbsent = (L q).isAbsent := by
  unfold Layer.updFile
  cases hq : L q with
  | file i m c x =>
    simp only []
    split
    · exact hg _
    · rfl
  | other i m =>
    simp only []
    split
    · exact hg _
    · rfl
  | absent => rfl
  | whiteout => rfl
  | symlink t => rfl
  | dir m o x => rfl

/-- changing attributes of files keeps every node's kind -/
theorem hostStep_updFile (L : Layer) (id : Nat) (g : Node → Node)
    (hd : ∀ nd, (g nd).isDir = nd.isDir) (ha : ∀ nd, (g nd).isAbsent = nd.isAbsent) :
    HostStep L (L.updFile id g) := by
  refine ⟨fun h => by rw [updFile_isDir L id g hd]; exact h, fun ht n p hn => ?_⟩
  rw [updFile_isAbsent L id g ha] at hn
  rw [updFile_isDir L id g hd]
  exact ht n p hn

/-- replacing a directory by a directory keeps every node's kind -/
theorem hostStep_setDir (L : Layer) (p : Path) (m o x m' o' x' : Nat) (h : L p = .dir m o x) :
    HostStep L (L.set p (.dir m' o' x')) := by
  have hk : ∀ q, ((L.set p (.dir m' o' x')) q).isDir = (L q).isDir ∧
      ((L.set p (.dir m' o' x')) q).isAbsent = (L q).isAbsent := by
    intro q
    simp only [Layer.set]
    split
    · rename_i hq; subst hq; simp [h, Node.isDir, Node.isAbsent]
    · exact ⟨rfl, rfl⟩
  refine ⟨fun hd => by rw [(hk []).1]; exact hd, fun ht n q hn => ?_⟩
  rw [(hk _).2] at hn
  rw [(hk _).1]
  exact ht n q hn

theorem hostStep_refl (L : Layer) : HostStep L L := ⟨fun h => h, fun h => h⟩

/-- creating an entry in an existing directory -/
theorem hostStep_mk (L : Layer) (p : Path) (n : Name) (nd : Node) (hp : (L p).isDir = true)
    (ha : (L (n :: p)).isAbsent = true) : HostStep L (L.set (n :: p) nd) := by
  refine ⟨fun hd => by rw [set_root]; exact hd, fun ht m q hm => ?_⟩
  simp only [Layer.set] at hm ⊢
  by_cases h1 : m :: q = n :: p
  · have hq : q = p := by injection h1
    subst hq
    rw [if_neg (ne_of_apply_ne List.length (by simp))]
    exact hp
  · rw [if_neg h1] at hm
    by_cases h2 : q = n :: p
    · subst h2
      have := ht m (n :: p) hm
      cases hx : L (n :: p) <;> simp_all [Node.isDir, Node.isAbsent]
    · rw [if_neg h2]; exact ht m q hm

/-- removing an entry that has nothing below it -/
theorem hostStep_rm (L : Layer) (p : Path) (n : Name) (hleaf : ∀ m, (L (m :: n :: p)).isAbsent = true) :
    HostStep L (L.set (n :: p) .absent) := by
  refine ⟨fun hd => by rw [set_root]; exact hd, fun ht m q hm => ?_⟩
  simp only [Layer.set] at hm ⊢
  by_cases h1 : m :: q = n :: p
  · rw [if_pos h1] at hm; simp [Node.isAbsent] at hm
  · rw [if_neg h1] at hm
    by_cases h2 : q = n :: p
    · subst h2; rw [hleaf m] at hm; cases hm
    · rw [if_neg h2]; exact ht m q hm

theorem keepRoot_hMk (p : Path) (n : Name) (nd : Node) : KeepRoot (hMk · p n nd) := by
  intro L L' h
  simp only [hMk, hParent] at h
  cases hp : L p <;> simp [hp] at h
  by_cases ha : (L (n :: p)).isAbsent = true
  · simp [ha] at h
    subst h
    exact hostStep_mk L p n nd (by simp [hp, Node.isDir]) ha
  · simp [ha] at h

theorem keepRoot_hLink (src p : Path) (n : Name) : KeepRoot (hLink · src p n) := by
  intro L L' h
  simp only [hLink] at h
  split at h
  · cases h
  · cases h
  · exact keepRoot_hMk p n _ L L' h

/-- below a non-directory of a tree there is nothing -/
theorem leaf_of_nondir {L : Layer} (ht : TreeOK L) {q : Path} (hq : (L q).isDir = false) (m : Name) :
    (L (m :: q)).isAbsent = true := by
  cases ha : (L (m :: q)).isAbsent with
  | true => rfl
  | false => have := ht m q ha; rw [hq] at this; cases this

theorem keepRoot_hUnlink (p : Path) (n : Name) : KeepRoot (hUnlink · p n) := by
  intro L L' h
  simp only [hUnlink] at h
  cases hx : L (n :: p) <;> simp [hx] at h <;> subst h <;>
    refine ⟨fun hd => by rw [set_root]; exact hd, fun ht => ?_⟩ <;>
    exact (hostStep_rm L p n (fun m => leaf_of_nondir ht (by simp [hx, Node.isDir]) m)).2 ht

theorem keepRoot_hRmdir (p : Path) (n : Name) : KeepRoot (hRmdir · p n) := by
  intro L L' h
  simp only [hRmdir] at h
  cases hx : L (n :: p) <;> simp [hx] at h
  by_cases hk : L.hasKids (n :: p) = true
  · simp [hk] at h
  · simp [hk] at h
    subst h
    refine hostStep_rm L p n (fun m => ?_)
    simp only [Layer.hasKids, List.any_eq_true, not_exists, not_and, Bool.not_eq_true] at hk
    have := hk m (mem_names m)
    simpa using this

theorem keepRoot_hCreateWhiteout (p : Path) (n : Name) : KeepRoot (hCreateWhiteout · p n) := by
  intro L L' h
  simp only [hCreateWhiteout] at h
  split at h
  · cases h; exact hostStep_refl L
  · exact keepRoot_hMk p n _ L L' h
  · cases h

theorem keepRoot_hDeleteWhiteout (p : Path) (n : Name) : KeepRoot (hDeleteWhiteout · p n) := by
  intro L L' h
  simp only [hDeleteWhiteout] at h
  split at h
  · exact keepRoot_hUnlink p n L L' h
  · cases h; exact hostStep_refl L
  · cases h

theorem keepRoot_hSetOpaque (p : Path) : KeepRoot (hSetOpaque · p) := by
  intro L L' h
  simp only [hSetOpaque] at h
  split at h
  · rename_i m o x hx
    cases h; exact hostStep_setDir L p m o x m 1 x hx
  · cases h
  · cases h

theorem keepRoot_hWrite (p : Path) (off : Nat) (data : List Nat) : KeepRoot (hWrite · p off data) := by
  intro L L' h
  simp only [hWrite] at h
  split at h
  · cases h
    refine hostStep_updFile L _ _ (fun nd => ?_) (fun nd => ?_) <;> cases nd <;> rfl
  · cases h

theorem keepRoot_hOpen (p : Path) (t : Bool) : KeepRoot (hOpen · p t) := by
  intro L L' h
  simp only [hOpen] at h
  split at h
  · cases h
  · split at h
    · cases h
      refine hostStep_updFile L _ _ (fun nd => ?_) (fun nd => ?_) <;> cases nd <;> rfl
    · cases h; exact hostStep_refl L
  · cases h; exact hostStep_refl L
  · cases h
  · cases h

theorem keepRoot_hChmod (p : Path) (mode : Nat) : KeepRoot (fun L => hChmod L p mode) := by
  intro L L' h
  simp only [hChmod] at h
  split at h
  · cases h
  · cases h
    refine hostStep_updFile L _ _ (fun nd => ?_) (fun nd => ?_) <;> cases nd <;> rfl
  · rename_i m o x hx
    cases h; exact hostStep_setDir L p m o x mode o x hx
  · cases h
    refine hostStep_updFile L _ _ (fun nd => ?_) (fun nd => ?_) <;> cases nd <;> rfl
  · cases h
  · cases h; exact hostStep_refl L

theorem keepRoot_hTruncate (p : Path) (n : Nat) : KeepRoot (fun L => hTruncate L p n) := by
  intro L L' h
  simp only [hTruncate] at h
  split at h
  · cases h
  · cases h
    refine hostStep_updFile L _ _ (fun nd => ?_) (fun nd => ?_) <;> cases nd <;> rfl
  · cases h
  · cases h

theorem keepRoot_hSetX (p : Path) (v : Nat) : KeepRoot (fun L => hSetX L p v) := by
  intro L L' h
  simp only [hSetX] at h
  split at h
  · cases h
  · cases h
    refine hostStep_updFile L _ _ (fun nd => ?_) (fun nd => ?_) <;> cases nd <;> rfl
  · rename_i m o x hx
    cases h; exact hostStep_setDir L p m o x m o v hx
  · cases h

theorem keepRoot_hRmX (p : Path) : KeepRoot (fun L => hRmX L p) := by
  intro L L' h
  simp only [hRmX] at h
  split at h
  · cases h
  · split at h
    · cases h
    · exact keepRoot_hSetX p 0 L L' h

/-- discharge a `KeepRoot` side condition -/
macro "keeproot" : tactic =>
  `(tactic| first
    | exact keepRoot_hMk _ _ _ | exact keepRoot_hLink _ _ _ | exact keepRoot_hUnlink _ _
    | exact keepRoot_hRmdir _ _ | exact keepRoot_hCreateWhiteout _ _ | exact keepRoot_hDeleteWhiteout _ _
    | exact keepRoot_hSetOpaque _ | exact keepRoot_hWrite _ _ _ | exact keepRoot_hOpen _ _
    | exact keepRoot_hChmod _ _ | exact keepRoot_hTruncate _ _ | exact keepRoot_hSetX _ _
    | exact keepRoot_hRmX _ | assumption)

structure InvSpec where
  φ : Real → Prop
  ψ : Call → Prop
  D : Disk → Prop
  child : ∀ (r c : Real), φ r → c.layer = r.layer → c.inUpper = r.inUpper → φ c
  call : ∀ (r : Real) (m : Method), φ r → r.inUpper = true → ψ ⟨r.layer, m⟩
  disk : ∀ (r : Real) (L L' : Layer) (d : Disk), φ r → r.inUpper = true → D d →
    d.layer r.layer = some L → HostStep L L' → D (d.setLayer r.layer L')

variable (I : InvSpec)

def MOK (m : MNode) : Prop := ∀ r ∈ m.reals, I.φ r

def GInv (s : St) : Prop :=
  (∀ p m, s.mem p = some m → MOK I m) ∧ (∀ c ∈ s.log, I.ψ c) ∧ I.D s.disk

/-- the node at `p` exists and its first real inode is in the upper layer -/
def UpAt (p : Path) (s : St) : Prop := ∃ m, s.mem p = some m ∧ m.inUpper = true

variable {I}

theorem GInv.mem_set {s : St} {p : Path} {m : MNode} (h : GInv I s) (hm : MOK I m) :
    GInv I { s with mem := s.mem.set p (some m) } := by
  refine ⟨?_, h.2.1, h.2.2⟩
  intro q m' hq
  simp only [Mem.set] at hq
  split at hq
  · cases hq; exact hm
  · exact h.1 q m' hq

theorem GInv.of_mem {s : St} (h : GInv I s) {mem' : Mem}
    (hm : ∀ q m, mem' q = some m → MOK I m) : GInv I { s with mem := mem' } :=
  ⟨hm, h.2.1, h.2.2⟩

theorem childReal_ok {r : Real} {n : Name} {w : Bool} (h : I.φ r) (hu : r.inUpper = true) :
    I.φ { childReal r n with whiteout := w } :=
  I.child r _ h rfl (by simp [childReal, hu])

theorem lookupChild_ok {d : Disk} {r c : Real} {n : Name} (h : I.φ r) (hc : lookupChild d r n = some c) :
    I.φ c := by
  unfold lookupChild at hc
  split at hc
  · cases hc
  · split at hc
    · cases hc
    · cases hc; exact I.child r _ h rfl rfl

theorem takeDirs_sub (d : Disk) : ∀ (l : List Real) (r : Real), r ∈ takeDirs d l → r ∈ l
  | [], r, h => by simp [takeDirs] at h
  | a :: rest, r, h => by
    unfold takeDirs at h
    split at h
    · simp at h
    · split at h
      · simp at h
      · split at h
        · simp at h; simp [h]
        · simp only [List.mem_cons] at h
          rcases h with h | h
          · simp [h]
          · exact List.mem_cons_of_mem _ (takeDirs_sub d rest r h)

theorem newFromReals_ok {d : Disk} {l : List Real} {k : MNode} (hl : ∀ r ∈ l, I.φ r)
    (hk : newFromReals d l = some k) : MOK I k := by
  cases l with
  | nil => simp [newFromReals] at hk
  | cons a rest =>
    simp only [newFromReals] at hk
    split at hk
    · simp only [Option.some.injEq] at hk
      subst hk
      intro r hr
      simp at hr
      subst hr
      exact hl _ (by simp)
    · simp only [Option.some.injEq] at hk
      subst hk
      intro r hr
      simp at hr
      rcases hr with hr | hr
      · subst hr; exact hl _ (by simp)
      · exact hl _ (List.mem_cons_of_mem _ (takeDirs_sub d rest r hr))

theorem scanKids_ok {d : Disk} {m : MNode} (hm : MOK I m) :
    ∀ n k, (n, k) ∈ scanKids d m → MOK I k := by
  intro n k hk
  unfold scanKids at hk
  simp only [List.mem_filterMap] at hk
  obtain ⟨n', _, hk⟩ := hk
  cases hnf : newFromReals d (List.filterMap (fun x => lookupChild d x n') (takeDirs d m.reals)) with
  | none => simp [hnf] at hk
  | some k' =>
    simp [hnf] at hk
    obtain ⟨_, rfl⟩ := hk
    refine newFromReals_ok ?_ hnf
    intro r hr
    simp only [List.mem_filterMap] at hr
    obtain ⟨r0, hr0, hc⟩ := hr
    exact lookupChild_ok (hm r0 (takeDirs_sub d _ _ hr0)) hc

theorem lookup_mem {α β : Type} [BEq α] [LawfulBEq α] {l : List (α × β)} {a : α} {b : β}
    (h : l.lookup a = some b) : (a, b) ∈ l := by
  induction l with
  | nil => simp at h
  | cons x rest ih =>
    obtain ⟨a', b'⟩ := x
    simp only [List.lookup] at h
    split at h
    · rename_i heq
      cases h
      have : a = a' := by simpa using heq
      subst this; simp
    · exact List.mem_cons_of_mem _ (ih h)

theorem insertKids_ok {s : St} {p : Path} {kids : List (Name × MNode)} (h : GInv I s)
    (hk : ∀ n k, (n, k) ∈ kids → MOK I k) : GInv I { s with mem := insertKids s.mem p kids } := by
  refine h.of_mem ?_
  intro q m hq
  unfold insertKids at hq
  split at hq
  · exact h.1 _ _ hq
  · split at hq
    · split at hq
      · rename_i n q' _ k hl
        cases hq
        have := lookup_mem hl
        exact hk _ _ this
      · exact h.1 _ _ hq
    · exact h.1 _ _ hq

/-! ### primitives -/

theorem getNode_inv (p : Path) :
    Triple (GInv I) (getNode p) (fun m s => (MOK I m ∧ s.mem p = some m) ∧ GInv I s) (GInv I) := by
  intro s hs
  refine ⟨fun a s' h => ?_, fun e s' h => ?_⟩ <;> unfold getNode at h <;> split at h <;> cases h
  · rename_i hm; exact ⟨⟨hs.1 p _ hm, hm⟩, hs⟩
  · exact hs

theorem getNode_inv' (p : Path) :
    Triple (GInv I) (getNode p) (fun m s => MOK I m ∧ GInv I s) (GInv I) :=
  (getNode_inv p).post fun _ _ h => ⟨h.1.1, h.2⟩

theorem setNode_inv (p : Path) (m : MNode) (hm : MOK I m) :
    Triple (GInv I) (setNode p m) (fun _ => GInv I) (GInv I) :=
  Triple.modifySt' fun _ hs => hs.mem_set hm

theorem nodeStat_inv (m : MNode) : Triple (GInv I) (nodeStat m) (fun _ => GInv I) (GInv I) := by
  intro s hs
  refine ⟨fun a s' h => ?_, fun e s' h => ?_⟩ <;> unfold nodeStat at h <;> split at h <;> cases h <;> exact hs

theorem hasUpper_inv : Triple (GInv I) hasUpper (fun b s => b = s.disk.upper.isSome ∧ GInv I s) (GInv I) := by
  intro s hs
  refine ⟨fun a s' h => ?_, fun e s' h => ?_⟩ <;> unfold hasUpper at h <;> cases h
  exact ⟨rfl, hs⟩

theorem freshId_inv : Triple (GInv I) freshId (fun _ => GInv I) (GInv I) := by
  intro s hs
  refine ⟨fun a s' h => ?_, fun e s' h => ?_⟩ <;> unfold freshId at h <;> cases h
  exact ⟨hs.1, hs.2.1, hs.2.2⟩

theorem layerCall_inv (r : Real) (m : Method) (f : Layer → Except Nat Layer) (hr : I.φ r)
    (hu : r.inUpper = true) (hk : KeepRoot f) :
    Triple (GInv I) (layerCall r.layer m f) (fun _ => GInv I) (GInv I) := by
  intro s hs
  have hlog : ∀ c ∈ s.log ++ [⟨r.layer, m⟩], I.ψ c := by
    intro c hc
    simp at hc
    rcases hc with hc | hc
    · exact hs.2.1 c hc
    · subst hc; exact I.call r m hr hu
  refine ⟨fun a s' h => ?_, fun e s' h => ?_⟩ <;> unfold layerCall at h <;> simp only at h <;>
    split at h
  · cases h
  · rename_i L hL
    split at h
    · cases h
    · rename_i L' hf
      cases h; exact ⟨hs.1, hlog, I.disk r L L' _ hr hu hs.2.2 hL (hk L L' hf)⟩
  · cases h; exact ⟨hs.1, hlog, hs.2.2⟩
  · split at h
    · cases h; exact ⟨hs.1, hlog, hs.2.2⟩
    · cases h

theorem mkNode_inv (r : Real) (m : Method) (n : Name) (node : Node) (hr : I.φ r) :
    Triple (GInv I) (r.mkNode m n node) (fun ri s => (I.φ ri ∧ ri.inUpper = true) ∧ GInv I s) (GInv I) := by
  unfold Real.mkNode
  by_cases hu : r.inUpper = true
  · simp only [hu, Bool.not_true, Bool.false_eq_true, if_false]
    refine Triple.bind (layerCall_inv r m _ hr hu (by keeproot)) fun _ => ?_
    exact Triple.pure' fun s hs => ⟨⟨childReal_ok (w := false) hr hu, rfl⟩, hs⟩
  · simp only [Bool.not_eq_true] at hu
    simp only [hu, Bool.not_false, if_true]
    exact Triple.fail' fun _ h => h

theorem link_inv (r : Real) (src : Path) (n : Name) (hr : I.φ r) :
    Triple (GInv I) (r.link src n) (fun ri s => (I.φ ri ∧ ri.inUpper = true) ∧ GInv I s) (GInv I) := by
  unfold Real.link
  by_cases hu : r.inUpper = true
  · simp only [hu, Bool.not_true, Bool.false_eq_true, if_false]
    refine Triple.bind (layerCall_inv r _ _ hr hu (by keeproot)) fun _ => ?_
    exact Triple.pure' fun s hs => ⟨⟨childReal_ok (w := false) hr hu, rfl⟩, hs⟩
  · simp only [Bool.not_eq_true] at hu
    simp only [hu, Bool.not_false, if_true]
    exact Triple.fail' fun _ h => h

theorem createWhiteout_inv (r : Real) (n : Name) (hr : I.φ r) :
    Triple (GInv I) (r.createWhiteout n) (fun ri s => (I.φ ri ∧ ri.inUpper = true) ∧ GInv I s) (GInv I) := by
  unfold Real.createWhiteout
  by_cases hu : r.inUpper = true
  · simp only [hu, Bool.not_true, Bool.false_eq_true, if_false]
    refine Triple.bind (layerCall_inv r _ _ hr hu (by keeproot)) fun _ => ?_
    exact Triple.pure' fun s hs => ⟨⟨childReal_ok (w := true) hr hu, rfl⟩, hs⟩
  · simp only [Bool.not_eq_true] at hu
    simp only [hu, Bool.not_false, if_true]
    exact Triple.fail' fun _ h => h

end Fbr.Ovl
