/-
  Id-mapping lemmas: arithmetic of `remap_id`, and the invariant that ties every mount point to
  the mapping given at its mount and to the once-translated owner of its root.
-/
import Fbr.Vfs
import Fbr.Persist
import Fbr.Lemmas.VfsAlloc
import Fbr.Lemmas.VfsInv

namespace Fbr.Lemmas.VfsMap
open Fbr.Vfs Fbr.Persist Fbr.Lemmas.VfsAlloc Fbr.Lemmas.VfsInv

/-! ### arithmetic -/

theorem remapId_in_range {v a b r : Nat} (hb : b + r ≤ U32) (h1 : a ≤ v) (h2 : v - a < r) :
    remapId v a b r = some (v - a + b) := by
  unfold remapId U32 at *
  have : v - a + b < 2 ^ 32 := by omega
  simp [h1, h2, this]

theorem remapId_outside {v a b r : Nat} (h : ¬ (a ≤ v ∧ v - a < r)) : remapId v a b r = some v := by
  unfold remapId
  simp [h]

/-- under the guard `to_base + range ≤ 2^32` the remap never overflows and stays a `u32` -/
theorem remapId_total {v a b r : Nat} (hb : b + r ≤ U32) (hv : v < U32) :
    ∃ w, remapId v a b r = some w ∧ w < U32 := by
  by_cases h : a ≤ v ∧ v - a < r
  · refine ⟨v - a + b, remapId_in_range hb h.1 h.2, ?_⟩
    unfold U32 at *; omega
  · exact ⟨v, remapId_outside h, hv⟩

/-- a mapping that satisfies the guard on both sides -/
def MapOk (m : Map) : Prop := m.1 + m.2.2 ≤ U32 ∧ m.2.1 + m.2.2 ≤ U32

def OptMapOk : Option Map → Prop
  | none => True
  | some m => MapOk m

theorem remapPair_total {m : Option Map} {toExt : Bool} {u g : Nat} (hm : OptMapOk m) (hu : u < U32) (hg : g < U32) :
    ∃ u' g', remapPair m toExt u g = some (u', g') ∧ u' < U32 ∧ g' < U32 := by
  unfold remapPair
  cases m with
  | none => exact ⟨u, g, rfl, hu, hg⟩
  | some m =>
    obtain ⟨i, e, r⟩ := m
    obtain ⟨h1, h2⟩ := hm
    simp only at h1 h2
    cases toExt
    · obtain ⟨u', hu', hul⟩ := remapId_total (v := u) (a := e) h1 hu
      obtain ⟨g', hg', hgl⟩ := remapId_total (v := g) (a := e) h1 hg
      exact ⟨u', g', by simp [hu', hg'], hul, hgl⟩
    · obtain ⟨u', hu', hul⟩ := remapId_total (v := u) (a := i) h2 hu
      obtain ⟨g', hg', hgl⟩ := remapId_total (v := g) (a := i) h2 hg
      exact ⟨u', g', by simp [hu', hg'], hul, hgl⟩

/-! ### the mapping invariant -/

/-- for every mount point: the table holds the mapping recorded at its mount, the recorded root
    inode is the backend's, and the stored root entry is the backend's root translated once
    (internal → external) with the mount's effective mapping -/
def MapInv (s : State) : Prop :=
  ∀ p m, s.mnts p = some m →
    s.mountMaps m.idx = m.map ∧
    ∃ b, s.supers m.idx = some b ∧ m.ino = b.rootIno ∧
      convertInode m.idx b.rootIno = .ok m.rootEntry.inode ∧ m.rootEntry.stIno = m.rootEntry.inode ∧
      remapPair (s.effectiveMap m.idx) true b.rootUid b.rootGid = some (m.rootEntry.uid, m.rootEntry.gid)

theorem mapInv_new (opts : Opts) (rm : Bool) : MapInv (State.new opts rm) := by
  intro p m h
  simp [State.new] at h

theorem effectiveMap_congr {s t : State} (h1 : t.mountMaps = s.mountMaps) (h2 : t.globalMap = s.globalMap) (i : Nat) :
    t.effectiveMap i = s.effectiveMap i := by
  unfold State.effectiveMap
  rw [h1, h2]

theorem mapInv_of_eq {s t : State} (h : MapInv s) (h1 : t.supers = s.supers) (h2 : t.mnts = s.mnts)
    (h3 : t.mountMaps = s.mountMaps) (h4 : t.globalMap = s.globalMap) : MapInv t := by
  intro p m hm
  rw [h2] at hm
  obtain ⟨a, b, hb, c⟩ := h p m hm
  refine ⟨by rw [h3]; exact a, b, by rw [h1]; exact hb, ?_⟩
  rw [effectiveMap_congr h3 h4]
  exact c

/-- `insert_mount_locked` at a vacant slot preserves the mapping invariant -/
theorem insertMountLocked_mapInv {s s' : State} {b : Bk} {idx : Nat} {path : Name} {r : Except Nat Unit}
    (hinv : Inv s) (h : MapInv s) (hvac : s.supers idx = none)
    (hi : s.insertMountLocked b idx path = some (s', r)) : MapInv s' := by
  unfold State.insertMountLocked at hi
  split at hi
  · cases hi; exact h
  · split at hi
    · cases hi
    · rename_i p' inode hw
      simp only at hi
      split at hi
      · cases hi
      · cases hi; exact mapInv_of_eq h rfl rfl rfl rfl
      · rename_i ent hce
        cases hi
        intro p m hm
        simp only [upd] at hm
        by_cases hp : p = inode
        · simp only [hp, if_true, Option.some.injEq] at hm
          subst hm
          refine ⟨rfl, b, by simp [upd], rfl, ?_⟩
          unfold State.convertEntry at hce
          cases hc : convertInode idx b.rootIno with
          | error n => simp [hc] at hce
          | ok v =>
            simp only [hc] at hce
            split at hce
            · cases hce
            · rename_i u g hr
              simp only [Option.some.injEq, Except.ok.injEq] at hce
              subst hce
              exact ⟨rfl, rfl, hr⟩
        · simp only [hp, if_false] at hm
          obtain ⟨a, b', hb', c⟩ := h p m hm
          refine ⟨a, b', ?_, c⟩
          have hne : m.idx ≠ idx := by intro he; rw [he, hvac] at hb'; cases hb'
          simp only [upd, hne, if_false]
          cases ho : s.mnts inode with
          | none => exact hb'
          | some o =>
            have hne2 : m.idx ≠ o.idx := fun he => hp (hinv.inj p inode m o hm ho he)
            simp only [upd, hne2, if_false]
            exact hb'

/-- storing a mapping for a vacant slot does not disturb any mount point -/
theorem mapInv_setMap {s : State} (_hinv : Inv s) (h : MapInv s) (next idx : Nat) (map : Option Map)
    (hvac : s.supers idx = none) :
    MapInv { s with nextSuper := next, mountMaps := upd s.mountMaps idx map } := by
  intro p m hm
  obtain ⟨a, b, hb, c⟩ := h p m hm
  have hne : m.idx ≠ idx := by intro he; rw [he, hvac] at hb; cases hb
  refine ⟨by simp only [upd, hne, if_false]; exact a, b, hb, ?_⟩
  have : State.effectiveMap { s with nextSuper := next, mountMaps := upd s.mountMaps idx map } m.idx = s.effectiveMap m.idx := by
    unfold State.effectiveMap
    simp only [upd, hne, if_false]
  rw [this]
  exact c

theorem mount_mapInv {s : State} (hinv : Inv s) (h : MapInv s) (b : Bk) (path : Name) (map : Option Map) :
    MapInv (s.mount b path map).1 := by
  rcases mount_cases s hinv.next b path map with ⟨h1, _⟩ | ⟨next, _, h1, _⟩ | ⟨next, idx, hn, hne, hlt, hvac, ⟨h1, _⟩ | ⟨s3, r, hins, h1, _⟩⟩
  · rw [h1]; exact h
  · rw [h1]; exact mapInv_of_eq h rfl rfl rfl rfl
  · rw [h1]; exact mapInv_setMap hinv h next idx map hvac
  · rw [h1]
    have hinv2 : Inv { s with nextSuper := next, mountMaps := upd s.mountMaps idx map } :=
      inv_of_eq hinv rfl rfl hn
    exact insertMountLocked_mapInv hinv2 (mapInv_setMap hinv h next idx map hvac) hvac hins

theorem umount_mapInv {s : State} (hinv : Inv s) (h : MapInv s) (path : Name) : MapInv (s.umount path).1 := by
  rcases umount_cases s path with h1 | ⟨inode, m0, pseudo, hm0, _, h1⟩
  · rw [h1]; exact h
  · rw [h1]
    intro p m hm
    simp only [upd] at hm
    by_cases hp : p = inode
    · simp [hp] at hm
    · simp only [hp, if_false] at hm
      obtain ⟨a, b, hb, c⟩ := h p m hm
      have hne : m.idx ≠ m0.idx := fun he => hp (hinv.inj p inode m m0 hm hm0 he)
      refine ⟨by simp only [upd, hne, if_false]; exact a, b, by simp only [upd, hne, if_false]; exact hb, ?_⟩
      have : ∀ t : State, t.mountMaps = upd s.mountMaps m0.idx none → t.globalMap = s.globalMap →
          t.effectiveMap m.idx = s.effectiveMap m.idx := by
        intro t h1 h2
        unfold State.effectiveMap
        rw [h1, h2]
        simp only [upd, hne, if_false]
      rw [this { s with pseudo := pseudo, mnts := upd s.mnts inode none, supers := upd s.supers m0.idx none,
                        mountMaps := upd s.mountMaps m0.idx none } rfl rfl]
      exact c

theorem init_mapInv {s : State} (h : MapInv s) (opts : Nat) : MapInv (s.init opts).1 := by
  unfold State.init
  split
  · exact h
  · simp only
    split <;> exact mapInv_of_eq h rfl rfl rfl rfl

theorem destroy_mapInv {s : State} (h : MapInv s) : MapInv (s.destroy).1 := by
  unfold State.destroy
  split
  · exact mapInv_of_eq h rfl rfl rfl rfl
  · exact h

end Fbr.Lemmas.VfsMap
