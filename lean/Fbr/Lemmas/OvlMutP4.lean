/-
  (P4) removing the upper entry of a node: when may the name go without a whiteout.
-/
import Fbr.Ovl
import Fbr.Lemmas.OvlExp
import Fbr.Lemmas.OvlSim
import Fbr.Lemmas.OvlLocal
import Fbr.Lemmas.OvlMut
import Fbr.Lemmas.OvlMutA
import Fbr.Lemmas.OvlMutP1
import Fbr.Lemmas.OvlMutP3

namespace Fbr.Ovl

theorem takeDirs_prefix (d : Disk) : ∀ l : List Real, takeDirs d l <+: l
  | [] => List.prefix_refl _
  | r :: rest => by
    unfold takeDirs
    split
    · exact List.nil_prefix
    · split
      · exact List.nil_prefix
      · split
        · exact ⟨rest, rfl⟩
        · exact (List.prefix_cons_inj r).2 (takeDirs_prefix d rest)

theorem prefix_filterMap {α β : Type} (f : α → Option β) {l₁ l₂ : List α} (h : l₁ <+: l₂) :
    l₁.filterMap f <+: l₂.filterMap f := by
  obtain ⟨t, rfl⟩ := h
  rw [List.filterMap_append]
  exact List.prefix_append _ _

/-- past the first one, the real inodes of a consistent node are lower ones -/
theorem tail_lower {s : St} (hc : Consistent s) {p : Path} {m : MNode} (hm : s.mem p = some m)
    {r : Real} {rest : List Real} (hr : m.reals = r :: rest) : ∀ x ∈ rest, x.layer ≠ 0 ∧ x.path = p := by
  intro x hx
  have hsh := reals_shape hc hm x (by rw [hr]; exact List.mem_cons_of_mem _ hx)
  refine ⟨?_, hsh.1⟩
  rcases realsOK_forms hc.roots (hc.reals p m hm) with h | ⟨i, _, _, h⟩
  · rw [hr] at h
    cases he : expIdx s.disk p with
    | nil => rw [he] at h; cases h
    | cons j t =>
      rw [he] at h
      simp only [List.map_cons, List.cons.injEq] at h
      rw [h.2] at hx
      simp only [List.mem_map] at hx
      obtain ⟨k, hk, rfl⟩ := hx
      have := (List.pairwise_cons.1 (he ▸ expIdx_sorted s.disk p)).1 k hk
      simp only [realOf]
      omega
  · rw [hr] at h
    simp only [List.cons.injEq] at h
    rw [h.2] at hx; cases hx

/-- (P4) once the upper entry at `n :: pp` is gone, nothing there needs a node — provided the
    parent's upper directory is opaque or no lower layer of the parent shows the name -/
theorem removed_needsNode {s : St} (hc : Consistent s) (hu : s.disk.upper.isSome) (n : Name) (pp : Path)
    {pm : MNode} (hpm : s.mem pp = some pm) {pr : Real} {rest : List Real} (hr : pm.reals = pr :: rest)
    (hpu : pr.inUpper = true)
    (hcond : pr.opq = true ∨ lowerEntryExists s.disk pm n = false) :
    needsNode (localExp (s.disk.setUpper (n :: pp) .absent) pm n) = false := by
  generalize hd' : s.disk.setUpper (n :: pp) .absent = d'
  have hnode : ∀ i p, d'.nodeAt i p = if i = 0 ∧ p = n :: pp then .absent else s.disk.nodeAt i p := by
    intro i p; rw [← hd']; exact nodeAt_setUpper _ _ _ hu i p
  have hsh := reals_shape hc hpm pr (by simp [hr])
  have hprl : pr.layer = 0 := by
    have := hsh.2.1; rw [hpu] at this; simpa using this.symm
  have hprp : pr.path = pp := hsh.1
  have hrest := tail_lower hc hpm hr
  -- scanning the parent: its real inodes are read as before
  have htd : takeDirs d' pm.reals = takeDirs s.disk pm.reals := by
    apply takeDirs_agree
    intro r hrm
    have hp := (reals_shape hc hpm r hrm).1
    rw [hp, hnode, if_neg (fun h => ne_cons_self n pp h.2)]
    exact sameShape_refl _
  -- the upper real inode no longer finds the name
  have hup0 : lookupChild d' pr n = none := by
    unfold lookupChild
    split
    · rfl
    · rw [hprl, hprp, hnode]; simp
  have hlow : ∀ x ∈ rest, lookupChild d' x n = lookupChild s.disk x n := by
    intro x hx
    apply lookupChild_agree
    rw [hnode, if_neg (fun h => (hrest x hx).1 h.1)]
    exact sameShape_refl _
  unfold localExp
  rw [htd, hr]
  -- the candidates: a prefix of what the lower real inodes find
  have hpre : ∃ t, takeDirs s.disk (pr :: rest) = [] ∨
      (takeDirs s.disk (pr :: rest) = pr :: t ∧ t <+: rest ∧ (pr.opq = true → t = [])) := by
    unfold takeDirs
    split
    · exact ⟨[], Or.inl rfl⟩
    · split
      · exact ⟨[], Or.inl rfl⟩
      · split
        · exact ⟨[], Or.inr ⟨rfl, List.nil_prefix, fun _ => rfl⟩⟩
        · rename_i ho
          exact ⟨takeDirs s.disk rest, Or.inr ⟨rfl, takeDirs_prefix _ _, fun h => absurd h ho⟩⟩
  obtain ⟨t, ht | ⟨ht, htp, hto⟩⟩ := hpre
  · rw [ht]; rfl
  · rw [ht, List.filterMap_cons, hup0]
    have hc2 : t.filterMap (lookupChild d' · n) = t.filterMap (lookupChild s.disk · n) :=
      filterMap_congr' fun x hx => hlow x (htp.subset hx)
    rw [hc2]
    rcases hcond with hopq | hlee
    · rw [hto hopq]; rfl
    · -- no lower real inode of the parent shows the name
      have hA : (pm.reals.filter (!·.inUpper)) = rest.filter (!·.inUpper) := by
        rw [hr, List.filter_cons]; simp [hpu]
      have hrest_all : rest.filter (!·.inUpper) = rest := by
        apply List.filter_eq_self.2
        intro x hx
        have hs := reals_shape hc hpm x (by rw [hr]; exact List.mem_cons_of_mem _ hx)
        have := (hrest x hx).1
        rw [hs.2.1]
        simpa using this
      unfold lowerEntryExists at hlee
      rw [hA, hrest_all] at hlee
      have hpf := prefix_filterMap (lookupChild s.disk · n) htp
      cases hc3 : t.filterMap (lookupChild s.disk · n) with
      | nil => rfl
      | cons c cs =>
        rw [hc3] at hpf
        obtain ⟨tail, htail⟩ := hpf
        rw [← htail] at hlee
        simp only [List.cons_append, Bool.not_eq_eq_eq_not, Bool.not_false] at hlee
        -- `c` is a whiteout found through a lower real inode
        have hcl : c.inUpper = false := by
          have : c ∈ t.filterMap (lookupChild s.disk · n) := by rw [hc3]; simp
          simp only [List.mem_filterMap] at this
          obtain ⟨x, hx, hxc⟩ := this
          have hxs := reals_shape hc hpm x (by rw [hr]; exact List.mem_cons_of_mem _ (htp.subset hx))
          have hxl := (hrest x (htp.subset hx)).1
          unfold lookupChild at hxc
          split at hxc
          · cases hxc
          · split at hxc
            · cases hxc
            · cases hxc
              rw [hxs.2.1]; simpa using hxl
        simp [newFromReals, hlee, needsNode, hcl]

end Fbr.Ovl
