/-
  Well-formedness of the pseudo tree, its preservation by `mountWalk`, totality of the walks
  (no `unwrap()` panics), and `restorePseudo (save p) = p`.
-/
import Fbr.Vfs
import Fbr.Persist

namespace Fbr.Lemmas.VfsPseudo
open Fbr.Vfs Fbr.Persist

/-- the children a node must list: the non-root nodes whose parent it is, in table order -/
def childrenOf (nodes : List PNode) (k : Nat) : List (Nat × Name) :=
  (nodes.filter (fun x => x.parent == k && x.ino != 1)).map (fun x => (x.ino, x.name))

structure WF (p : Pseudo) : Prop where
  /-- the table starts with the root -/
  root : ∃ c rest, p.nodes = { ino := 1, parent := 1, name := [SLASH], children := c } :: rest
  /-- inode numbers increase along the table (creation order) -/
  sorted : p.nodes.Pairwise (fun a b => a.ino < b.ino)
  /-- and stay below `next_inode` -/
  bound : ∀ n ∈ p.nodes, n.ino < p.nextInode
  /-- every parent exists -/
  parent : ∀ n ∈ p.nodes, ∃ q ∈ p.nodes, q.ino = n.parent
  /-- the children lists are exactly the parent links, in creation order -/
  children : ∀ n ∈ p.nodes, n.children = childrenOf p.nodes n.ino

theorem wf_new : WF Pseudo.new := by
  refine ⟨⟨[], [], rfl⟩, by simp [Pseudo.new], ?_, ?_, ?_⟩
  · intro n hn; simp [Pseudo.new] at hn; subst hn; decide
  · intro n hn
    refine ⟨{ ino := 1, parent := 1, name := [SLASH], children := [] }, by simp [Pseudo.new], ?_⟩
    simp [Pseudo.new] at hn; subst hn; rfl
  · intro n hn; simp [Pseudo.new] at hn; subst hn; decide

theorem find_some_mem {p : Pseudo} {ino : Nat} {n : PNode} (h : p.find ino = some n) : n ∈ p.nodes ∧ n.ino = ino := by
  unfold Pseudo.find at h
  exact ⟨List.mem_of_find?_eq_some h, by simpa using List.find?_some h⟩

theorem find_list_of_mem (nodes : List PNode) (hs : nodes.Pairwise (fun a b => a.ino < b.ino)) {n : PNode} (hn : n ∈ nodes) :
    nodes.find? (fun x => x.ino == n.ino) = some n := by
  induction nodes with
  | nil => cases hn
  | cons x rest ih =>
    rw [List.pairwise_cons] at hs
    rcases List.mem_cons.mp hn with h | h
    · subst h; simp
    · have hlt := hs.1 n h
      have : (x.ino == n.ino) = false := by simp; omega
      simp only [List.find?_cons, this]
      exact ih hs.2 h

theorem find_of_mem {p : Pseudo} (hs : p.nodes.Pairwise (fun a b => a.ino < b.ino)) {n : PNode} (hn : n ∈ p.nodes) :
    p.find n.ino = some n := find_list_of_mem p.nodes hs hn

theorem childrenOf_append (A B : List PNode) (j : Nat) : childrenOf (A ++ B) j = childrenOf A j ++ childrenOf B j := by
  simp [childrenOf, List.filter_append]

theorem childrenOf_map (N : List PNode) (f : PNode → PNode) (j : Nat)
    (hf : ∀ n, (f n).ino = n.ino ∧ (f n).parent = n.parent ∧ (f n).name = n.name) :
    childrenOf (N.map f) j = childrenOf N j := by
  induction N with
  | nil => rfl
  | cons x rest ih =>
    have hx := hf x
    simp only [childrenOf, List.map_cons, List.filter_cons] at ih ⊢
    rw [hx.1, hx.2.1]
    split
    · simp only [List.map_cons, hx.1, hx.2.2]
      rw [ih]
    · exact ih

/-- the update `insert_child` applies to the table -/
def addChild (par ino : Nat) (name : Name) (n : PNode) : PNode :=
  if n.ino == par then { n with children := n.children ++ [(ino, name)] } else n

theorem addChild_keeps (par ino : Nat) (name : Name) (n : PNode) :
    (addChild par ino name n).ino = n.ino ∧ (addChild par ino name n).parent = n.parent ∧ (addChild par ino name n).name = n.name := by
  unfold addChild
  split <;> exact ⟨rfl, rfl, rfl⟩

theorem createInode_nodes {p : Pseudo} (hb : ∀ n ∈ p.nodes, n.ino < p.nextInode) (par : Nat) (hpar : par < p.nextInode) (name : Name) :
    (p.createInode par name).1.nodes =
      p.nodes.map (addChild par p.nextInode name) ++ [{ ino := p.nextInode, parent := par, name := name, children := [] }] ∧
    (p.createInode par name).1.nextInode = p.nextInode + 1 ∧ (p.createInode par name).2 = p.nextInode := by
  unfold Pseudo.createInode
  refine ⟨?_, rfl, rfl⟩
  have hfil : p.nodes.filter (fun n => n.ino != p.nextInode) = p.nodes := by
    apply List.filter_eq_self.mpr
    intro n hn
    have := hb n hn
    simp; omega
  simp only [hfil, List.map_append, List.map_cons, List.map_nil]
  congr 1
  have : ¬ p.nextInode = par := by omega
  simp [this]

theorem createInode_wf {p : Pseudo} (h : WF p) (par : PNode) (hpar : par ∈ p.nodes) (name : Name) :
    WF (p.createInode par.ino name).1 := by
  have hparlt := h.bound par hpar
  obtain ⟨hn, hni, _⟩ := createInode_nodes h.bound par.ino hparlt name
  obtain ⟨c, rest, hroot⟩ := h.root
  have hk1 : 1 < p.nextInode := by
    have := h.bound _ (by rw [hroot]; exact List.mem_cons_self)
    exact this
  refine ⟨?_, ?_, ?_, ?_, ?_⟩
  · -- root
    rw [hn, hroot]
    simp only [List.map_cons, List.cons_append]
    refine ⟨(addChild par.ino p.nextInode name { ino := 1, parent := 1, name := [SLASH], children := c }).children,
      List.map (addChild par.ino p.nextInode name) rest ++ [{ ino := p.nextInode, parent := par.ino, name := name, children := [] }], ?_⟩
    congr 1
    unfold addChild
    split <;> rfl
  · -- sorted
    rw [hn]
    rw [List.pairwise_append]
    refine ⟨?_, by simp, ?_⟩
    · rw [List.pairwise_map]
      exact h.sorted.imp (fun {a b} hab => by
        rw [(addChild_keeps _ _ _ a).1, (addChild_keeps _ _ _ b).1]; exact hab)
    · intro a ha b hb
      simp only [List.mem_singleton] at hb
      subst hb
      obtain ⟨a', ha', rfl⟩ := List.mem_map.mp ha
      rw [(addChild_keeps _ _ _ a').1]
      exact h.bound a' ha'
  · -- bound
    intro n hnm
    rw [hn] at hnm
    rw [hni]
    rcases List.mem_append.mp hnm with h1 | h1
    · obtain ⟨a', ha', rfl⟩ := List.mem_map.mp h1
      rw [(addChild_keeps _ _ _ a').1]
      have := h.bound a' ha'
      omega
    · simp only [List.mem_singleton] at h1
      subst h1
      simp
  · -- parent
    intro n hnm
    rw [hn] at hnm ⊢
    rcases List.mem_append.mp hnm with h1 | h1
    · obtain ⟨a', ha', rfl⟩ := List.mem_map.mp h1
      obtain ⟨q, hq, hqi⟩ := h.parent a' ha'
      refine ⟨addChild par.ino p.nextInode name q, List.mem_append_left _ (List.mem_map_of_mem hq), ?_⟩
      rw [(addChild_keeps _ _ _ q).1, (addChild_keeps _ _ _ a').2.1]
      exact hqi
    · simp only [List.mem_singleton] at h1
      subst h1
      refine ⟨addChild par.ino p.nextInode name par, List.mem_append_left _ (List.mem_map_of_mem hpar), ?_⟩
      rw [(addChild_keeps _ _ _ par).1]
  · -- children
    intro n hnm
    rw [hn] at hnm ⊢
    rw [childrenOf_append, childrenOf_map _ _ _ (addChild_keeps _ _ _)]
    rcases List.mem_append.mp hnm with h1 | h1
    · obtain ⟨a', ha', rfl⟩ := List.mem_map.mp h1
      rw [(addChild_keeps _ _ _ a').1]
      have hc := h.children a' ha'
      unfold addChild
      by_cases hp : a'.ino = par.ino
      · have : (a'.ino == par.ino) = true := by simp [hp]
        simp only [this, if_true]
        rw [hc]
        congr 1
        have hk : ¬ p.nextInode = 1 := by omega
        simp [childrenOf, hp, hk]
      · have : (a'.ino == par.ino) = false := by simp [hp]
        simp only [this]
        have hne : ¬ par.ino = a'.ino := fun h => hp h.symm
        have h2 : childrenOf [{ ino := p.nextInode, parent := par.ino, name := name, children := [] }] a'.ino = [] := by
          simp [childrenOf, hne]
        rw [h2, List.append_nil]
        exact hc
    · simp only [List.mem_singleton] at h1
      subst h1
      simp only
      -- nobody has the new node as parent
      have h1 : childrenOf p.nodes p.nextInode = [] := by
        unfold childrenOf
        rw [List.map_eq_nil_iff, List.filter_eq_nil_iff]
        intro x hx
        obtain ⟨q, hq, hqi⟩ := h.parent x hx
        have := h.bound q hq
        simp; omega
      have h2 : childrenOf [{ ino := p.nextInode, parent := par.ino, name := name, children := [] }] p.nextInode = [] := by
        have : ¬ par.ino = p.nextInode := by omega
        simp [childrenOf, this]
      rw [h1, h2]; rfl

theorem child_is_node {p : Pseudo} (h : WF p) {n : PNode} (hn : n ∈ p.nodes) {name : Name} {c : Nat}
    (hc : n.child name = some c) : ∃ x ∈ p.nodes, x.ino = c ∧ x.parent = n.ino ∧ x.name = name := by
  unfold PNode.child at hc
  cases hf : n.children.find? (fun c => c.2 == name) with
  | none => simp [hf] at hc
  | some pr =>
    simp only [hf, Option.map_some, Option.some.injEq] at hc
    have hmem := List.mem_of_find?_eq_some hf
    have hname : pr.2 = name := by simpa using List.find?_some hf
    rw [h.children n hn] at hmem
    unfold childrenOf at hmem
    obtain ⟨x, hx, hxe⟩ := List.mem_map.mp hmem
    have hx2 := List.mem_filter.mp hx
    refine ⟨x, hx2.1, ?_, ?_, ?_⟩
    · rw [← hc, ← hxe]
    · have := hx2.2; simp at this; exact this.1
    · rw [← hname, ← hxe]

/-- `PseudoFs::mount` never hits an `unwrap()` on a well-formed tree, and keeps it well-formed -/
theorem mountWalk_wf : ∀ (comps : List Comp) (p : Pseudo) (cur : Nat), WF p → (∃ n ∈ p.nodes, n.ino = cur) →
    ∃ p' ino, p.mountWalk cur comps = some (p', ino) ∧ WF p' ∧ (∃ n ∈ p'.nodes, n.ino = ino) := by
  intro comps
  induction comps with
  | nil => intro p cur h hc; exact ⟨p, cur, rfl, h, hc⟩
  | cons c rest ih =>
    intro p cur h ⟨n, hn, hni⟩
    have hfind : p.find cur = some n := by rw [← hni]; exact find_of_mem h.sorted hn
    cases c with
    | none =>
      obtain ⟨q, hq, hqi⟩ := h.parent n hn
      have hfq : p.find n.parent = some q := by rw [← hqi]; exact find_of_mem h.sorted hq
      simp only [Pseudo.mountWalk, hfind, hfq]
      exact ih p q.ino h ⟨q, hq, rfl⟩
    | some name =>
      simp only [Pseudo.mountWalk, hfind]
      cases hch : n.child name with
      | some c =>
        obtain ⟨x, hx, hxi, _⟩ := child_is_node h hn hch
        have hfx : p.find c = some x := by rw [← hxi]; exact find_of_mem h.sorted hx
        simp only [hfx]
        exact ih p x.ino h ⟨x, hx, rfl⟩
      | none =>
        simp only
        have hwf := createInode_wf h n hn name
        obtain ⟨hnodes, _, hino⟩ := createInode_nodes h.bound n.ino (h.bound n hn) name
        refine ih _ _ hwf ⟨{ ino := p.nextInode, parent := n.ino, name := name, children := [] }, ?_, ?_⟩
        · rw [hnodes]; simp
        · rw [hino]

/-- `PseudoFs::path_walk` never hits an `unwrap()` on a well-formed tree -/
theorem pathWalk_total : ∀ (comps : List Comp) (p : Pseudo) (cur : Nat), WF p → (∃ n ∈ p.nodes, n.ino = cur) →
    ∃ r, p.pathWalk cur comps = some r ∧ ∀ i, r = some i → ∃ n ∈ p.nodes, n.ino = i := by
  intro comps
  induction comps with
  | nil => intro p cur h hc; exact ⟨some cur, rfl, fun i hi => by cases hi; exact hc⟩
  | cons c rest ih =>
    intro p cur h ⟨n, hn, hni⟩
    have hfind : p.find cur = some n := by rw [← hni]; exact find_of_mem h.sorted hn
    cases c with
    | none =>
      obtain ⟨q, hq, hqi⟩ := h.parent n hn
      have hfq : p.find n.parent = some q := by rw [← hqi]; exact find_of_mem h.sorted hq
      simp only [Pseudo.pathWalk, hfind, hfq]
      exact ih p q.ino h ⟨q, hq, rfl⟩
    | some name =>
      simp only [Pseudo.pathWalk, hfind]
      cases hch : n.child name with
      | some c =>
        obtain ⟨x, hx, hxi, _⟩ := child_is_node h hn hch
        have hfx : p.find c = some x := by rw [← hxi]; exact find_of_mem h.sorted hx
        simp only [hfx]
        exact ih p x.ino h ⟨x, hx, rfl⟩
      | none => exact ⟨none, rfl, fun i hi => by cases hi⟩

theorem root_mem {p : Pseudo} (h : WF p) : ∃ n ∈ p.nodes, n.ino = 1 := by
  obtain ⟨c, rest, hr⟩ := h.root
  exact ⟨_, by rw [hr]; exact List.mem_cons_self, rfl⟩

/-! ### save / restore of the pseudo tree -/

theorem sortByIno_sorted (l : List PInodeState) (h : l.Pairwise (fun a b => a.ino < b.ino)) : sortByIno l = l := by
  induction l with
  | nil => rfl
  | cons x t ih =>
    rw [List.pairwise_cons] at h
    unfold sortByIno at ih ⊢
    simp only [List.foldr_cons]
    rw [ih h.2]
    cases t with
    | nil => rfl
    | cons y t' =>
      have := h.1 y List.mem_cons_self
      simp [insertByIno, this]

/-- the children the connect loop gives node `k` -/
def kids (states : List PInodeState) (k : Nat) : List (Nat × Name) :=
  (states.filter (fun st => st.parent == k)).map (fun st => (st.ino, st.name))

theorem connect_spec : ∀ (states : List PInodeState) (nodes : List PNode),
    (∀ st ∈ states, ∃ n ∈ nodes, n.ino = st.parent) →
    connect nodes states = some (nodes.map fun n => { n with children := n.children ++ kids states n.ino }) := by
  intro states
  induction states with
  | nil =>
    intro nodes _
    simp only [connect, kids, List.filter_nil, List.map_nil, List.append_nil]
    congr 1
    exact (List.map_id' nodes).symm
  | cons st rest ih =>
    intro nodes hp
    obtain ⟨n0, hn0, hn0i⟩ := hp st List.mem_cons_self
    have hany : nodes.any (fun n => n.ino == st.parent) = true := by
      rw [List.any_eq_true]; exact ⟨n0, hn0, by simp [hn0i]⟩
    simp only [connect, hany, if_true]
    rw [ih]
    · congr 1
      rw [List.map_map]
      apply List.map_congr_left
      intro n _
      simp only [Function.comp]
      by_cases hk : n.ino = st.parent
      · have h1 : (n.ino == st.parent) = true := by simp [hk]
        have h2 : (st.parent == n.ino) = true := by simp [hk]
        simp [h1, kids, h2, List.append_assoc]
      · have h1 : (n.ino == st.parent) = false := by simp [hk]
        have h2 : (st.parent == n.ino) = false := by simp; exact fun h => hk h.symm
        simp [h1, kids, h2]
    · intro st' hst'
      obtain ⟨n, hn, hni⟩ := hp st' (List.mem_cons_of_mem _ hst')
      refine ⟨_, List.mem_map_of_mem hn, ?_⟩
      split <;> exact hni

def toState (n : PNode) : PInodeState := { ino := n.ino, parent := n.parent, name := n.name }

/-- saving a well-formed pseudo tree and restoring it into a fresh pseudo fs reproduces it exactly:
    the same nodes with the same numbers, parents and names, children in creation order, and the
    same `next_inode` -/
theorem restorePseudo_save {p : Pseudo} (h : WF p) :
    restorePseudo p.nextInode ((p.nodes.filter (fun n => n.ino != ROOT_ID)).map fun n => { ino := n.ino, parent := n.parent, name := n.name })
      = some p := by
  obtain ⟨c, rest, hroot⟩ := h.root
  have hsorted := h.sorted
  rw [hroot, List.pairwise_cons] at hsorted
  have hrest_gt : ∀ x ∈ rest, 1 < x.ino := fun x hx => hsorted.1 x hx
  have hfil : (p.nodes.filter (fun n => n.ino != ROOT_ID)) = rest := by
    rw [hroot]
    simp only [List.filter_cons, ROOT_ID]
    have : (( { ino := 1, parent := 1, name := [SLASH], children := c } : PNode).ino != 1) = false := by simp
    simp only [this]
    apply List.filter_eq_self.mpr
    intro x hx
    have := hrest_gt x hx
    simp; omega
  rw [hfil]
  have hst_sorted : (rest.map toState).Pairwise (fun a b => a.ino < b.ino) := by
    rw [List.pairwise_map]; exact hsorted.2
  unfold restorePseudo
  have hsort : sortByIno (rest.map fun n => ({ ino := n.ino, parent := n.parent, name := n.name } : PInodeState)) = rest.map toState :=
    sortByIno_sorted _ hst_sorted
  simp only [hsort]
  rw [connect_spec]
  · simp only [Option.map_some, Option.some.injEq]
    cases p with
    | mk nextInode nodes =>
      simp only at hroot hfil h ⊢
      congr 1
      rw [hroot]
      simp only [List.map_cons, rootNode, List.nil_append, List.map_map]
      -- children given by the connect loop = the children lists of the original
      have hkids : ∀ k, kids (rest.map toState) k = (rest.filter (fun x => x.parent == k)).map (fun x => (x.ino, x.name)) := by
        intro k
        unfold kids
        rw [List.filter_map, List.map_map]
        rfl
      have hco : ∀ k, childrenOf ({ ino := 1, parent := 1, name := [SLASH], children := c } :: rest) k
          = (rest.filter (fun x => x.parent == k)).map (fun x => (x.ino, x.name)) := by
        intro k
        unfold childrenOf
        simp only [List.filter_cons]
        have : ((( { ino := 1, parent := 1, name := [SLASH], children := c } : PNode).parent == k) &&
                (( { ino := 1, parent := 1, name := [SLASH], children := c } : PNode).ino != 1)) = false := by simp
        simp only [this]
        congr 1
        apply List.filter_congr
        intro x hx
        have := hrest_gt x hx
        have h1 : (x.ino != 1) = true := by simp; omega
        simp [h1]
      congr 1
      · -- the root
        have hc := h.children { ino := 1, parent := 1, name := [SLASH], children := c } (by rw [hroot]; exact List.mem_cons_self)
        simp only at hc
        rw [hroot, hco] at hc
        rw [hkids, ← hc]
      · rw [List.map_congr_left (g := id), List.map_id]
        intro x hx
        have hc := h.children x (by rw [hroot]; exact List.mem_cons_of_mem _ hx)
        rw [hroot, hco] at hc
        simp only [Function.comp, toState, List.nil_append, id]
        have hk := hkids x.ino
        rw [hk, ← hc]
  · intro st hst
    obtain ⟨x, hx, rfl⟩ := List.mem_map.mp hst
    obtain ⟨q, hq, hqi⟩ := h.parent x (by rw [hroot]; exact List.mem_cons_of_mem _ hx)
    rw [hroot] at hq
    rcases List.mem_cons.mp hq with h1 | h1
    · refine ⟨rootNode, List.mem_cons_self, ?_⟩
      rw [h1] at hqi
      simp only [toState, rootNode]
      exact hqi
    · refine ⟨{ ino := q.ino, parent := q.parent, name := q.name, children := [] }, ?_, ?_⟩
      · apply List.mem_cons_of_mem
        rw [List.map_map]
        exact List.mem_map.mpr ⟨q, h1, rfl⟩
      · simp only [toState]; exact hqi

end Fbr.Lemmas.VfsPseudo
