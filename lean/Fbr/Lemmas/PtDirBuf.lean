/-
  Helper lemmas for C16 (byte level): the three walkers over a raw `getdents64` buffer agree with
  their record-level readings on every encoded buffer, and stop on malformed records.
-/
import Fbr.Lemmas.PtDir

namespace Fbr.Lemmas.PtDir
open Fbr.PtDir Fbr.Wire

/-- the fields of a record fit their wire widths (`d_off : u64`, `d_reclen : u16`) -/
def Enc (e : HEnt) : Prop := e.cookie < 2 ^ 64 ∧ reclen e < 2 ^ 16

theorem reclen_ge (e : HEnt) : HDR + e.name.length + 1 ≤ reclen e := by unfold reclen HDR; omega

theorem nameField_length (e : HEnt) : (nameField e).length = reclen e - HDR := by
  have := reclen_ge e
  simp [nameField, zeros]; omega

theorem encode_length (e : HEnt) : (encode e).length = reclen e := by
  have := reclen_ge e
  simp [encode, nameField_length, le64, le16, HDR] at *
  omega

theorem u64At_8 (e : HEnt) (rest : Bytes) : u64At (encode e ++ rest) 8 = e.cookie % 2 ^ 64 := by
  unfold u64At fld encode
  have : (le64 e.ino ++ le64 e.cookie ++ le16 (reclen e) ++ [UInt8.ofNat e.type] ++ nameField e ++ rest).drop 8
      = le 8 e.cookie ++ (le16 (reclen e) ++ [UInt8.ofNat e.type] ++ nameField e ++ rest) := by
    simp only [le64, List.append_assoc]
    rw [List.drop_append_of_le_length (by simp)]
    simp
  rw [this, de_append_le]

theorem u16At_16 (e : HEnt) (rest : Bytes) : u16At (encode e ++ rest) 16 = reclen e % 2 ^ 16 := by
  unfold u16At fld encode
  have : (le64 e.ino ++ le64 e.cookie ++ le16 (reclen e) ++ [UInt8.ofNat e.type] ++ nameField e ++ rest).drop 16
      = le 2 (reclen e) ++ ([UInt8.ofNat e.type] ++ nameField e ++ rest) := by
    simp only [le64, le16, List.append_assoc]
    have h16 : (le 8 e.ino ++ (le 8 e.cookie ++ (le 2 (reclen e) ++ (UInt8.ofNat e.type :: (nameField e ++ rest))))) =
        (le 8 e.ino ++ le 8 e.cookie) ++ (le 2 (reclen e) ++ (UInt8.ofNat e.type :: (nameField e ++ rest))) := by simp
    simp only [List.singleton_append]
    rw [h16, List.drop_left' (by simp)]
  rw [this, de_append_le]

theorem drop_encode (e : HEnt) (rest : Bytes) : (encode e ++ rest).drop (reclen e) = rest := by
  rw [← encode_length e]; exact List.drop_left

theorem nameArea_encode (e : HEnt) (rest : Bytes) :
    ((encode e ++ rest).drop HDR).take (reclen e - HDR) = nameField e := by
  have h : encode e ++ rest = (le64 e.ino ++ le64 e.cookie ++ le16 (reclen e) ++ [UInt8.ofNat e.type]) ++ (nameField e ++ rest) := by
    simp [encode]
  rw [h, List.drop_left' (by simp [le64, le16, HDR]), ← nameField_length e, List.take_left]

theorem encodeAll_length_ge (b : Dir) : b.length ≤ (encodeAll b).length := by
  induction b with
  | nil => simp [encodeAll]
  | cons e r ih =>
    simp only [encodeAll, List.length_append, List.length_cons, encode_length]
    have := reclen_ge e
    omega

theorem hdr_le_encode (e : HEnt) (rest : Bytes) : HDR ≤ (encode e ++ rest).length := by
  have := reclen_ge e
  simp only [List.length_append, encode_length]; omega

/-- `skip_to_cookie`'s loop on an encoded buffer -/
theorem skipScan_encoded (offset : Nat) (b : Dir) (henc : ∀ e ∈ b, Enc e) :
    ∀ (fuel cur : Nat), b.length < fuel →
      (∀ r, skipToCookieL b offset = some r →
        ∃ pre, encodeAll b = pre ++ encodeAll r ∧ skipScan offset fuel (encodeAll b) cur = some (cur + pre.length)) ∧
      (skipToCookieL b offset = none → skipScan offset fuel (encodeAll b) cur = none) := by
  induction b with
  | nil =>
    intro fuel cur hf
    cases fuel with
    | zero => omega
    | succ f => simp [skipScan, encodeAll, skipToCookieL, HDR]
  | cons e r ih =>
    intro fuel cur hf
    cases fuel with
    | zero => omega
    | succ f =>
      obtain ⟨hc, hr⟩ := henc e (by simp)
      have hge : ¬ (reclen e < HDR) := by have := reclen_ge e; omega
      have hstep : skipScan offset (f + 1) (encodeAll (e :: r)) cur =
          if e.cookie = offset then some (cur + reclen e) else skipScan offset f (encodeAll r) (cur + reclen e) := by
        simp only [skipScan, encodeAll, hdr_le_encode, if_true, u16At_16, u64At_8,
          Nat.mod_eq_of_lt hc, Nat.mod_eq_of_lt hr, drop_encode, hge, if_false]
      rw [hstep]
      simp only [skipToCookieL]
      by_cases heq : e.cookie = offset
      · simp only [heq, if_true]
        refine ⟨?_, fun h => by cases h⟩
        intro r' hr'
        cases hr'
        exact ⟨encode e, by simp [encodeAll], by rw [encode_length]⟩
      · simp only [heq, if_false]
        obtain ⟨ih1, ih2⟩ := ih (fun x hx => henc x (by simp [hx])) f (cur + reclen e) (by simp at hf; omega)
        refine ⟨?_, ih2⟩
        intro r' hr'
        obtain ⟨pre, hp1, hp2⟩ := ih1 r' hr'
        refine ⟨encode e ++ pre, by simp [encodeAll, hp1], ?_⟩
        rw [hp2]; simp [encode_length]; omega

/-- **`skip_to_cookie` on a well-formed buffer**: it finds the first record whose `d_off` is
    `offset` and leaves exactly the records after it; it never panics -/
theorem skipToCookie_encoded (offset : Nat) (b : Dir) (henc : ∀ e ∈ b, Enc e) :
    skipToCookie (encodeAll b) offset =
      match skipToCookieL b offset with
      | some r => .found (encodeAll r)
      | none => .notFound := by
  unfold skipToCookie
  obtain ⟨h1, h2⟩ := skipScan_encoded offset b henc ((encodeAll b).length + 1) 0
    (by have := encodeAll_length_ge b; omega)
  cases hs : skipToCookieL b offset with
  | none => rw [h2 hs]
  | some r =>
    obtain ⟨pre, hp1, hp2⟩ := h1 r hs
    rw [hp2]
    simp only [Nat.zero_add]
    have hle : pre.length ≤ (encodeAll b).length := by rw [hp1]; simp
    simp only [hle, if_true]
    conv => lhs; rw [hp1]
    simp

/-- `last_cookie_in_buf`'s loop on an encoded buffer -/
theorem lastCookie_encoded (b : Dir) (henc : ∀ e ∈ b, Enc e) :
    ∀ (fuel : Nat) (acc : Option Nat), b.length < fuel →
      lastCookie fuel (encodeAll b) acc = (match lastCookieL b with | some c => some c | none => acc) := by
  induction b with
  | nil =>
    intro fuel acc hf
    cases fuel with
    | zero => omega
    | succ f => simp [lastCookie, encodeAll, lastCookieL, HDR]
  | cons e r ih =>
    intro fuel acc hf
    cases fuel with
    | zero => omega
    | succ f =>
      obtain ⟨hc, hr⟩ := henc e (by simp)
      have hge : ¬ (reclen e < HDR) := by have := reclen_ge e; omega
      have hle : ¬ (reclen e > (encode e ++ encodeAll r).length) := by
        simp only [List.length_append, encode_length]; omega
      simp only [lastCookie, encodeAll, hdr_le_encode, if_true, u16At_16, u64At_8,
        Nat.mod_eq_of_lt hc, Nat.mod_eq_of_lt hr, drop_encode]
      have hcond : (decide (reclen e < HDR) || decide (reclen e > (encode e ++ encodeAll r).length)) = false := by
        simp only [List.length_append, encode_length] at hle ⊢
        simp [hge]
      simp only [hcond, Bool.false_eq_true, if_false]
      rw [ih (fun x hx => henc x (by simp [hx])) f (some e.cookie) (by simp at hf; omega)]
      cases r with
      | nil => simp [lastCookieL]
      | cons x xs =>
        obtain ⟨c, hc'⟩ : ∃ c, lastCookieL (x :: xs) = some c := ⟨_, lastCookieL_eq _ (by simp)⟩
        have h2 : lastCookieL (e :: x :: xs) = some c := by
          have := lastCookieL_append [e] (x :: xs) (by simp)
          simpa [hc'] using this
        rw [hc', h2]

/-- **`last_cookie_in_buf` on a well-formed buffer**: the `d_off` of its last record -/
theorem lastCookieInBuf_encoded (b : Dir) (henc : ∀ e ∈ b, Enc e) :
    lastCookieInBuf (encodeAll b) = lastCookieL b := by
  unfold lastCookieInBuf
  rw [lastCookie_encoded b henc _ none (by have := encodeAll_length_ge b; omega)]
  cases lastCookieL b <;> rfl

theorem onlyDots_encoded (b : Dir) (henc : ∀ e ∈ b, Enc e) :
    ∀ (fuel : Nat), b.length < fuel → onlyDots fuel (encodeAll b) = onlyDotsL b := by
  induction b with
  | nil =>
    intro fuel hf
    cases fuel with
    | zero => omega
    | succ f => simp [onlyDots, encodeAll, onlyDotsL, HDR]
  | cons e r ih =>
    intro fuel hf
    cases fuel with
    | zero => omega
    | succ f =>
      obtain ⟨hc, hr⟩ := henc e (by simp)
      have hge : ¬ (reclen e < HDR) := by have := reclen_ge e; omega
      have hle : ¬ (reclen e > (encode e ++ encodeAll r).length) := by
        simp only [List.length_append, encode_length]; omega
      have hcond : (decide (reclen e < HDR) || decide (reclen e > (encode e ++ encodeAll r).length)) = false := by
        simp only [List.length_append, encode_length] at hle ⊢
        simp [hge]
      simp only [onlyDots, encodeAll, hdr_le_encode, if_true, u16At_16, Nat.mod_eq_of_lt hr, drop_encode,
        nameArea_encode, hcond, Bool.false_eq_true, if_false]
      rw [ih (fun x hx => henc x (by simp [hx])) f (by simp at hf; omega)]
      simp only [onlyDotsL, List.all_cons, isDot]
      cases isDotName (nameField e) <;> simp

/-- **`only_dot_entries` on a well-formed buffer** -/
theorem onlyDotEntries_encoded (b : Dir) (henc : ∀ e ∈ b, Enc e) : onlyDotEntries (encodeAll b) = onlyDotsL b :=
  onlyDots_encoded b henc _ (by have := encodeAll_length_ge b; omega)

/-! ### malformed buffers -/

/-- whatever the bytes, a found remainder is a suffix of the buffer -/
theorem skipToCookie_suffix (buf : Bytes) (offset : Nat) (rest : Bytes) (h : skipToCookie buf offset = .found rest) :
    ∃ pre, buf = pre ++ rest := by
  unfold skipToCookie at h
  split at h
  · cases h
  · split at h
    · cases h; exact ⟨buf.take _, (List.take_append_drop _ _).symm⟩
    · cases h

/-- a first record shorter than the 19-byte header ends `skip_to_cookie` without a match -/
theorem skipToCookie_short_reclen (buf : Bytes) (offset : Nat) (h : u16At buf 16 < HDR) :
    skipToCookie buf offset = .notFound := by
  unfold skipToCookie
  have : skipScan offset (buf.length + 1) buf 0 = none := by
    simp only [skipScan]
    split
    · simp [h]
    · rfl
  rw [this]

/-- a first record shorter than the header or longer than the buffer ends `last_cookie_in_buf` -/
theorem lastCookieInBuf_malformed (buf : Bytes) (h : u16At buf 16 < HDR ∨ u16At buf 16 > buf.length) :
    lastCookieInBuf buf = none := by
  unfold lastCookieInBuf
  simp only [lastCookie]
  split
  · have : (decide (u16At buf 16 < HDR) || decide (u16At buf 16 > buf.length)) = true := by
      rcases h with h | h <;> simp [h]
    simp [this]
  · rfl

end Fbr.Lemmas.PtDir
