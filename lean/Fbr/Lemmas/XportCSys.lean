/-
  Helper definitions/lemmas for C04: the handle table seen per handle.  `delivered s i op` = the
  bytes operation `op`, executed in state `s`, hands to its caller / its sink through READER
  handle `i`; `placed s i op` = the bytes it stores through WRITER handle `i`.  `step_view` sorts
  the 17 operations of `step` into five shapes, each with its content-level contract.
-/
import Fbr.Lemmas.XportWrOps
import Fbr.Lemmas.XportSys

namespace Fbr.Xport

/-- the reader handle an operation acts on -/
def Op.rh : Op → Option Nat
  | .rd h _ => some h
  | .ro h _ => some h
  | .rt h _ _ _ => some h
  | .re h _ _ => some h
  | .rs h _ => some h
  | _ => none

/-- the writer handle an operation acts on (`commit` changes nothing and is not listed) -/
def Op.wh : Op → Option Nat
  | .wr h _ => some h
  | .wv h _ => some h
  | .wf h _ _ _ => some h
  | .wa h _ _ => some h
  | .ws h _ => some h
  | _ => none

/-- the bytes a reader operation on cursor `b` returns into the caller's buffer (`read`,
    `read_obj` — also the part filled before a failure) or delivers to its sink (`read_to(_at)`,
    `read_exact_to`: what the sink received during the call) -/
def readerOut (b : IoBufs) (w : World) : Op → Bytes
  | .rd _ n => (Reader.read b w n).aux
  | .ro _ n => (Reader.readObj b w n).aux
  | .rt _ count at_ sc => ((Reader.readTo b w sc count at_.isSome).aux.got).drop sc.got.length
  | .re _ count sc => ((Reader.readExactTo (count + sc.answers.length + 1) b w sc count).aux.got).drop sc.got.length
  | _ => []

/-- the bytes a writer operation on cursor `b` stores: the first `n` bytes of its source (the
    caller's buffer(s) in order, the byte stream of the scripted file from its position), `n`
    being the advance of the cursor — for `write`/`write_vectored`/`write_from(_at)` the count the
    operation reports (`vwrite_delta`, `writeFrom_wrc`) -/
def writerIn (b : IoBufs) (w : World) : Op → Bytes
  | .wr _ data => data.take ((VirtioW.write b w data).b.consumed - b.consumed)
  | .wv _ datas => datas.flatten.take ((VirtioW.writeVectored b w datas).b.consumed - b.consumed)
  | .wf _ count at_ sc => patBytes sc.seed (at_.getD sc.pos) ((VirtioW.writeFrom b w sc count at_).b.consumed - b.consumed)
  | .wa _ count sc => patBytes sc.seed sc.pos ((VirtioW.writeAllFrom b w sc count).b.consumed - b.consumed)
  | _ => []

def delivered (s : St) (i : Nat) (op : Op) : Bytes :=
  if op.rh = some i then (match s.readers[i]? with | some b => readerOut b s.w op | none => []) else []

def placed (s : St) (i : Nat) (op : Op) : Bytes :=
  if op.wh = some i then (match s.writers[i]? with | some b => writerIn b s.w op | none => []) else []

/-- everything delivered through reader handle `i` by an operation list, in operation order -/
def deliveredAll (s : St) (i : Nat) : List Op → Bytes
  | [] => []
  | op :: rest => delivered s i op ++ deliveredAll (step s op).1 i rest

/-- everything stored through writer handle `i` by an operation list, in operation order -/
def placedAll (s : St) (i : Nat) : List Op → Bytes
  | [] => []
  | op :: rest => placed s i op ++ placedAll (step s op).1 i rest

theorem delivered_eq {s : St} {op : Op} {h : Nat} {b : IoBufs} (hrh : op.rh = some h) (hg : s.readers[h]? = some b)
    (i : Nat) : delivered s i op = if i = h then readerOut b s.w op else [] := by
  unfold delivered
  rw [hrh]
  by_cases hi : i = h
  · subst hi; simp [hg]
  · have : ¬ (some h = some i) := by intro e; cases e; exact hi rfl
    simp [hi, this]

theorem delivered_none {s : St} {op : Op} (hrh : op.rh = none) (i : Nat) : delivered s i op = [] := by
  unfold delivered; rw [hrh]; simp

theorem delivered_invalid {s : St} {op : Op} {h : Nat} (hrh : op.rh = some h) (hg : s.readers[h]? = none)
    (i : Nat) : delivered s i op = [] := by
  unfold delivered
  rw [hrh]
  by_cases hi : h = i
  · subst hi; simp [hg]
  · have : ¬ (some h = some i) := by intro e; cases e; exact hi rfl
    simp [this]

theorem placed_eq {s : St} {op : Op} {h : Nat} {b : IoBufs} (hwh : op.wh = some h) (hg : s.writers[h]? = some b)
    (i : Nat) : placed s i op = if i = h then writerIn b s.w op else [] := by
  unfold placed
  rw [hwh]
  by_cases hi : i = h
  · subst hi; simp [hg]
  · have : ¬ (some h = some i) := by intro e; cases e; exact hi rfl
    simp [hi, this]

theorem placed_none {s : St} {op : Op} (hwh : op.wh = none) (i : Nat) : placed s i op = [] := by
  unfold placed; rw [hwh]; simp

theorem placed_invalid {s : St} {op : Op} {h : Nat} (hwh : op.wh = some h) (hg : s.writers[h]? = none)
    (i : Nat) : placed s i op = [] := by
  unfold placed
  rw [hwh]
  by_cases hi : h = i
  · subst hi; simp [hg]
  · have : ¬ (some h = some i) := by intro e; cases e; exact hi rfl
    simp [this]

theorem rh_wh {op : Op} {h : Nat} (hrh : op.rh = some h) : op.wh = none := by
  cases op <;> first | rfl | cases hrh

theorem wh_rh {op : Op} {h : Nat} (hwh : op.wh = some h) : op.rh = none := by
  cases op <;> first | rfl | cases hwh

/-- the hypotheses under which every operation has its content-level contract -/
structure Ready (s : St) : Prop where
  p : 0 < s.w.p
  nofuse : s.fws = []
  rd : ∀ b ∈ s.readers, InMem s.w.mem (addrs b.segs) ∧ b.consumed + total b.segs < USIZE
  wr : ∀ b ∈ s.writers, InMem s.w.mem (addrs b.segs) ∧ b.consumed + total b.segs < USIZE

/-- **one step, sorted by shape**: nothing happens (unknown handle, refused split, commit, a
    fusedev operation on a virtio-fs table) / a reader operation on handle `h` / a reader split /
    a writer operation on `h` / a writer split -/
theorem step_view (s : St) (op : Op) (hr : Ready s) :
    ((step s op).1 = s ∧ (∀ i, delivered s i op = []) ∧ (∀ i, placed s i op = []))
    ∨ (∃ h b b' w', op.rh = some h ∧ (∀ k, op ≠ .rs h k) ∧ s.readers[h]? = some b
        ∧ (step s op).1 = { s with w := w', readers := s.readers.set h b' }
        ∧ RdC (readerOut b s.w op) b s.w b' w')
    ∨ (∃ h k b a o, op = .rs h k ∧ s.readers[h]? = some b ∧ b.splitAt k = .ok (a, o)
        ∧ (step s op).1 = { s with readers := s.readers.set h a ++ [o] })
    ∨ (∃ h b b' w', op.wh = some h ∧ (∀ k, op ≠ .ws h k) ∧ s.writers[h]? = some b
        ∧ (step s op).1 = { s with w := w', writers := s.writers.set h b' }
        ∧ WrC (writerIn b s.w op) b s.w b' w')
    ∨ (∃ h k b a o, op = .ws h k ∧ s.writers[h]? = some b ∧ b.splitAt k = .ok (a, o)
        ∧ (step s op).1 = { s with writers := s.writers.set h a ++ [o] }) := by
  have hnf := hr.nofuse
  cases op with
  | rd h n =>
    cases hg : s.readers[h]? with
    | none => exact Or.inl ⟨by simp only [step, hg], delivered_invalid rfl hg, placed_none rfl⟩
    | some b =>
      obtain ⟨hin, hov⟩ := hr.rd b (mem_of_getElem? hg)
      refine Or.inr (Or.inl ⟨h, b, _, _, rfl, (by intro k e; cases e), hg, (by simp only [step, hg, setAt]; rfl), ?_⟩)
      exact read_rdc b s.w n hin hov
  | ro h n =>
    cases hg : s.readers[h]? with
    | none => exact Or.inl ⟨by simp only [step, hg], delivered_invalid rfl hg, placed_none rfl⟩
    | some b =>
      obtain ⟨hin, hov⟩ := hr.rd b (mem_of_getElem? hg)
      refine Or.inr (Or.inl ⟨h, b, _, _, rfl, (by intro k e; cases e), hg, (by simp only [step, hg, setAt]; rfl), ?_⟩)
      exact readObj_rdc b s.w n hin hov
  | rt h count at_ sc =>
    cases hg : s.readers[h]? with
    | none => exact Or.inl ⟨by simp only [step, hg], delivered_invalid rfl hg, placed_none rfl⟩
    | some b =>
      obtain ⟨hin, hov⟩ := hr.rd b (mem_of_getElem? hg)
      refine Or.inr (Or.inl ⟨h, b, _, _, rfl, (by intro k e; cases e), hg, (by simp only [step, hg, setAt]; rfl), ?_⟩)
      obtain ⟨D, e, hd⟩ := readTo_rdc b s.w sc count at_.isSome hin hov
      simp only [readerOut, e, List.drop_left]
      exact hd
  | re h count sc =>
    cases hg : s.readers[h]? with
    | none => exact Or.inl ⟨by simp only [step, hg], delivered_invalid rfl hg, placed_none rfl⟩
    | some b =>
      obtain ⟨hin, hov⟩ := hr.rd b (mem_of_getElem? hg)
      refine Or.inr (Or.inl ⟨h, b, _, _, rfl, (by intro k e; cases e), hg, (by simp only [step, hg, setAt]; rfl), ?_⟩)
      obtain ⟨D, e, hd⟩ := readExactTo_rdc (count + sc.answers.length + 1) b s.w sc count hin hov
      simp only [readerOut, e, List.drop_left]
      exact hd
  | rs h k =>
    cases hg : s.readers[h]? with
    | none => exact Or.inl ⟨by simp only [step, hg], delivered_invalid rfl hg, placed_none rfl⟩
    | some b =>
      cases hs : b.splitAt k with
      | error e =>
        refine Or.inl ⟨by simp only [step, hg, hs], ?_, placed_none rfl⟩
        intro i; rw [delivered_eq (op := .rs h k) rfl hg]; simp [readerOut]
      | ok r =>
        obtain ⟨a, o⟩ := r
        exact Or.inr (Or.inr (Or.inl ⟨h, k, b, a, o, rfl, hg, hs, by simp only [step, hg, hs, setAt]⟩))
  | wr h data =>
    cases hg : s.writers[h]? with
    | none => exact Or.inl ⟨by simp only [step, hg], delivered_none rfl, placed_invalid rfl hg⟩
    | some b =>
      obtain ⟨hin, hov⟩ := hr.wr b (mem_of_getElem? hg)
      refine Or.inr (Or.inr (Or.inr (Or.inl ⟨h, b, _, _, rfl, (by intro k e; cases e), hg, (by simp only [step, hg, setAt]; rfl), ?_⟩)))
      exact vwrite_wrc b s.w data hr.p hin hov
  | wv h datas =>
    cases hg : s.writers[h]? with
    | none => exact Or.inl ⟨by simp only [step, hg], delivered_none rfl, placed_invalid rfl hg⟩
    | some b =>
      obtain ⟨hin, hov⟩ := hr.wr b (mem_of_getElem? hg)
      refine Or.inr (Or.inr (Or.inr (Or.inl ⟨h, b, _, _, rfl, (by intro k e; cases e), hg, (by simp only [step, hg, setAt]; rfl), ?_⟩)))
      exact writeVectored_wrc b s.w datas hr.p hin hov
  | wf h count at_ sc =>
    cases hg : s.writers[h]? with
    | none => exact Or.inl ⟨by simp only [step, hg], delivered_none rfl, placed_invalid rfl hg⟩
    | some b =>
      obtain ⟨hin, hov⟩ := hr.wr b (mem_of_getElem? hg)
      refine Or.inr (Or.inr (Or.inr (Or.inl ⟨h, b, _, _, rfl, (by intro k e; cases e), hg, (by simp only [step, hg, setAt]; rfl), ?_⟩)))
      exact (writeFrom_wrc b s.w sc count at_ hr.p hin hov).1
  | wa h count sc =>
    cases hg : s.writers[h]? with
    | none => exact Or.inl ⟨by simp only [step, hg], delivered_none rfl, placed_invalid rfl hg⟩
    | some b =>
      obtain ⟨hin, hov⟩ := hr.wr b (mem_of_getElem? hg)
      refine Or.inr (Or.inr (Or.inr (Or.inl ⟨h, b, _, _, rfl, (by intro k e; cases e), hg, (by simp only [step, hg, setAt]; rfl), ?_⟩)))
      exact writeAllFrom_wrc b s.w sc count hr.p hin hov
  | ws h k =>
    cases hg : s.writers[h]? with
    | none => exact Or.inl ⟨by simp only [step, hg], delivered_none rfl, placed_invalid rfl hg⟩
    | some b =>
      cases hs : b.splitAt k with
      | error e =>
        refine Or.inl ⟨by simp only [step, hg, hs], delivered_none rfl, ?_⟩
        intro i; rw [placed_eq (op := .ws h k) rfl hg]; simp [writerIn]
      | ok r =>
        obtain ⟨a, o⟩ := r
        exact Or.inr (Or.inr (Or.inr (Or.inr ⟨h, k, b, a, o, rfl, hg, hs, by simp only [step, hg, hs, setAt]⟩)))
  | wc h o =>
    refine Or.inl ⟨?_, delivered_none rfl, placed_none rfl⟩
    simp only [step]
    cases s.writers[h]? <;> rfl
  | fw h data => exact Or.inl ⟨by simp only [step, hnf, List.getElem?_nil], delivered_none rfl, placed_none rfl⟩
  | fv h datas => exact Or.inl ⟨by simp only [step, hnf, List.getElem?_nil], delivered_none rfl, placed_none rfl⟩
  | ff h count at_ sc => exact Or.inl ⟨by simp only [step, hnf, List.getElem?_nil], delivered_none rfl, placed_none rfl⟩
  | fa h count sc => exact Or.inl ⟨by simp only [step, hnf, List.getElem?_nil], delivered_none rfl, placed_none rfl⟩
  | fs h k => exact Or.inl ⟨by simp only [step, hnf, List.getElem?_nil], delivered_none rfl, placed_none rfl⟩
  | fc h o => exact Or.inl ⟨by simp only [step, hnf, List.getElem?_nil], delivered_none rfl, placed_none rfl⟩

end Fbr.Xport
