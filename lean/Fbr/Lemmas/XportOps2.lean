/-
  Helper lemmas for C04/C17: the public operations of Reader and VirtioFsWriter advance their
  cursor (`Adv`), including the retry loops.
-/
import Fbr.Lemmas.XportOps

namespace Fbr.Xport

theorem Adv.refl (wr md : Bool) (b : IoBufs) (w : World) : Adv wr md b w b w := ⟨0, AdvBy.refl _ _ _ _⟩

theorem Adv.trans {wr md : Bool} {b1 b2 b3 : IoBufs} {w1 w2 w3 : World}
    (h1 : Adv wr md b1 w1 b2 w2) (h2 : Adv wr md b2 w2 b3 w3) : Adv wr md b1 w1 b3 w3 := by
  obtain ⟨n1, h1⟩ := h1
  obtain ⟨n2, h2⟩ := h2
  exact ⟨_, h1.trans h2⟩

theorem Adv.inv {wr md : Bool} {b b' : IoBufs} {w w' : World} (h : Adv wr md b w b' w') :
    b'.consumed + total b'.segs = b.consumed + total b.segs := by
  obtain ⟨n, h⟩ := h
  exact h.inv

theorem Adv.p {wr md : Bool} {b b' : IoBufs} {w w' : World} (h : Adv wr md b w b' w') : w'.p = w.p := by
  obtain ⟨n, h⟩ := h
  exact h.2.1

/-! ### Reader -/

theorem read_advBy (b : IoBufs) (w : World) (n : Nat) (hov : b.consumed + total b.segs < USIZE) :
    ∃ k, k ≤ n ∧ AdvBy k false false b w (Reader.read b w n).b (Reader.read b w n).w
      ∧ (∀ j, (Reader.read b w n).res = .ok j → j = k) ∧ (∀ e, (Reader.read b w n).res = .error e → k = 0) := by
  unfold Reader.read
  exact consume_adv b w false false n [] _ (by intro h; cases h) (by intro h; cases h) hov (fok_copyOut w _ n)

theorem read_adv (b : IoBufs) (w : World) (n : Nat) (hov : b.consumed + total b.segs < USIZE) :
    Adv false false b w (Reader.read b w n).b (Reader.read b w n).w := by
  obtain ⟨k, _, h, _⟩ := read_advBy b w n hov
  exact ⟨k, h⟩

theorem readExact_adv (fuel : Nat) (b : IoBufs) (w : World) (n : Nat) (acc : Bytes)
    (hov : b.consumed + total b.segs < USIZE) :
    Adv false false b w (Reader.readExact fuel b w n acc).b (Reader.readExact fuel b w n acc).w := by
  induction fuel generalizing b w n acc with
  | zero => exact Adv.refl _ _ _ _
  | succ fuel ih =>
    unfold Reader.readExact
    by_cases h0 : n = 0
    · simp only [h0, if_true]; exact Adv.refl _ _ _ _
    · simp only [h0, if_false]
      have h1 := read_adv b w n hov
      have hov' : (Reader.read b w n).b.consumed + total (Reader.read b w n).b.segs < USIZE := by
        rw [h1.inv]; exact hov
      split
      · exact h1
      · exact h1.trans (ih _ _ _ _ hov')
      · exact h1.trans (ih _ _ _ _ hov')
      · exact h1

theorem readObj_adv (b : IoBufs) (w : World) (n : Nat) (hov : b.consumed + total b.segs < USIZE) :
    Adv false false b w (Reader.readObj b w n).b (Reader.readObj b w n).w :=
  readExact_adv _ b w n [] hov

theorem readTo_adv (b : IoBufs) (w : World) (dst : Script) (count : Nat) (at_ : Bool)
    (hov : b.consumed + total b.segs < USIZE) :
    Adv false false b w (Reader.readTo b w dst count at_).b (Reader.readTo b w dst count at_).w := by
  unfold Reader.readTo
  obtain ⟨k, _, h, _⟩ := consume_adv b w false false count dst (fun w bufs => dst.writeVectored w bufs at_)
    (by intro h; cases h) (by intro h; cases h) hov (writeVectored_fok dst w _ at_)
  exact ⟨k, h⟩

theorem readExactTo_adv (fuel : Nat) (b : IoBufs) (w : World) (dst : Script) (count : Nat)
    (hov : b.consumed + total b.segs < USIZE) :
    Adv false false b w (Reader.readExactTo fuel b w dst count).b (Reader.readExactTo fuel b w dst count).w := by
  induction fuel generalizing b w dst count with
  | zero => exact Adv.refl _ _ _ _
  | succ fuel ih =>
    unfold Reader.readExactTo
    by_cases h0 : count = 0
    · simp only [h0, if_true]; exact Adv.refl _ _ _ _
    · simp only [h0, if_false]
      have h1 := readTo_adv b w dst count false hov
      have hov' : (Reader.readTo b w dst count false).b.consumed + total (Reader.readTo b w dst count false).b.segs < USIZE := by
        rw [h1.inv]; exact hov
      split
      · exact h1
      · exact h1.trans (ih _ _ _ _ hov')
      · exact h1.trans (ih _ _ _ _ hov')
      · exact h1

/-! ### VirtioFsWriter -/

theorem vwrite_advBy (b : IoBufs) (w : World) (data : Bytes) (hp : 0 < w.p)
    (hov : b.consumed + total b.segs < USIZE) :
    ∃ k, k ≤ data.length ∧ AdvBy k true true b w (VirtioW.write b w data).b (VirtioW.write b w data).w
      ∧ (∀ j, (VirtioW.write b w data).res = .ok j → j = k) ∧ (∀ e, (VirtioW.write b w data).res = .error e → k = 0) := by
  unfold VirtioW.write
  cases VirtioW.checkAvail b data.length 0 0 with
  | error e =>
    exact ⟨0, Nat.zero_le _, AdvBy.refl _ _ _ _, (by intro j h; cases h), (by intro _ _; rfl)⟩
  | ok u =>
    cases u
    exact consume_adv b w true true data.length () _ (fun _ => hp) (fun _ => rfl) hov (fok_copyIn w _ data)

theorem vwrite_adv (b : IoBufs) (w : World) (data : Bytes) (hp : 0 < w.p)
    (hov : b.consumed + total b.segs < USIZE) :
    Adv true true b w (VirtioW.write b w data).b (VirtioW.write b w data).w := by
  obtain ⟨k, _, h, _⟩ := vwrite_advBy b w data hp hov
  exact ⟨k, h⟩

theorem writeEach_adv (b : IoBufs) (w : World) (bufs : List Bytes) (count : Nat) (hp : 0 < w.p)
    (hov : b.consumed + total b.segs < USIZE) :
    Adv true true b w (VirtioW.writeEach b w bufs count).b (VirtioW.writeEach b w bufs count).w := by
  induction bufs generalizing b w count with
  | nil => exact Adv.refl _ _ _ _
  | cons d rest ih =>
    unfold VirtioW.writeEach
    by_cases hd : d.isEmpty = true
    · rw [if_pos hd]; exact ih b w count hp hov
    · rw [if_neg hd]
      simp only
      have h1 := vwrite_adv b w d hp hov
      split
      · exact h1
      · exact h1.trans (ih _ _ _ (by rw [h1.p]; exact hp) (by rw [h1.inv]; exact hov))

theorem writeVectored_adv (b : IoBufs) (w : World) (bufs : List Bytes) (hp : 0 < w.p)
    (hov : b.consumed + total b.segs < USIZE) :
    Adv true true b w (VirtioW.writeVectored b w bufs).b (VirtioW.writeVectored b w bufs).w := by
  unfold VirtioW.writeVectored
  split
  · exact Adv.refl _ _ _ _
  · exact writeEach_adv b w bufs 0 hp hov

theorem writeFrom_adv (b : IoBufs) (w : World) (src : Script) (count : Nat) (at_ : Option Nat) (hp : 0 < w.p)
    (hov : b.consumed + total b.segs < USIZE) :
    Adv true true b w (VirtioW.writeFrom b w src count at_).b (VirtioW.writeFrom b w src count at_).w := by
  unfold VirtioW.writeFrom
  split
  · exact Adv.refl _ _ _ _
  · obtain ⟨k, _, h, _⟩ := consume_adv b w true true count src (fun w bufs => src.readVectored w bufs at_)
      (fun _ => hp) (fun _ => rfl) hov (readVectored_fok src w _ at_)
    exact ⟨k, h⟩

theorem writeAllLoop_adv (fuel : Nat) (b : IoBufs) (w : World) (src : Script) (count : Nat) (hp : 0 < w.p)
    (hov : b.consumed + total b.segs < USIZE) :
    Adv true true b w (VirtioW.writeAllLoop fuel b w src count).b (VirtioW.writeAllLoop fuel b w src count).w := by
  induction fuel generalizing b w src count with
  | zero => exact Adv.refl _ _ _ _
  | succ fuel ih =>
    unfold VirtioW.writeAllLoop
    by_cases h0 : count = 0
    · simp only [h0, if_true]; exact Adv.refl _ _ _ _
    · simp only [h0, if_false]
      have h1 := writeFrom_adv b w src count none hp hov
      have hp' : 0 < (VirtioW.writeFrom b w src count none).w.p := by rw [h1.p]; exact hp
      have hov' : (VirtioW.writeFrom b w src count none).b.consumed + total (VirtioW.writeFrom b w src count none).b.segs < USIZE := by
        rw [h1.inv]; exact hov
      split
      · exact h1
      · exact h1.trans (ih _ _ _ _ hp' hov')
      · exact h1.trans (ih _ _ _ _ hp' hov')
      · exact h1

theorem writeAllFrom_adv (b : IoBufs) (w : World) (src : Script) (count : Nat) (hp : 0 < w.p)
    (hov : b.consumed + total b.segs < USIZE) :
    Adv true true b w (VirtioW.writeAllFrom b w src count).b (VirtioW.writeAllFrom b w src count).w := by
  unfold VirtioW.writeAllFrom
  split
  · exact Adv.refl _ _ _ _
  · exact writeAllLoop_adv _ b w src count hp hov

end Fbr.Xport
