/-
  The frame of unlink and rmdir as whole operations: success or failure, the union at every path
  outside the subtree at the target is what it was, up to xattrs (of parent directories that had
  to be copied up).  (create / mkdir / mknod / symlink: Fbr.Lemmas.OvlEffects.)
-/
import Fbr.Ovl
import Fbr.Lemmas.OvlHoare
import Fbr.Lemmas.OvlSim
import Fbr.Lemmas.OvlSimLookup
import Fbr.Lemmas.OvlSimRO
import Fbr.Lemmas.OvlCopyUp
import Fbr.Lemmas.OvlCreate
import Fbr.Lemmas.OvlRm
import Fbr.Lemmas.OvlRmdirB
import Fbr.Lemmas.OvlEffects

namespace Fbr.Ovl

/-- `lookup_node(pp, "")` of a visible directory over a fixed disk, with everything `do_rm` needs -/
theorem lookupSelf_cd_ready' (d : Disk) (pp : Path) :
    Triple (fun s => CD d s ∧ DirAt pp s) (lookupSelf pp)
      (fun _ s => CD d s ∧ DirNode pp s ∧ ∃ pm, s.mem pp = some pm ∧ pm.loaded = true ∧ pm.whiteout = false ∧
        ∃ r rest, pm.reals = r :: rest) (CD d) := by
  intro s ⟨⟨hc, hd⟩, st, hsp, hdir, m, hm⟩
  have h := lookupSelf_spec s.disk pp s ⟨⟨hc, rfl⟩, m, hm⟩
  refine ⟨fun a s' hf => ?_, fun e s' hf => ?_⟩
  · obtain ⟨⟨hc', hd'⟩, hm', hw', hload⟩ := h.1 a s' hf
    have hsp' : specStat s'.disk pp = some st := by rw [hd']; exact hsp
    obtain ⟨_, r, rest, hr, hst⟩ := not_whiteout_of_spec hc' hm' hsp'
    refine ⟨⟨hc', by rw [hd', hd]⟩, ?_, a, hm', hload st hsp hdir, hw', r, rest, hr⟩
    intro m0 r0 rest0 hm0 hr0
    rw [hm'] at hm0; cases hm0
    rw [hr] at hr0; cases hr0
    rw [hst]; exact hdir
  · obtain ⟨⟨hc', hd'⟩, _⟩ := h.2 e s' hf
    exact ⟨hc', by rw [hd', hd]⟩

theorem doRm_unlink_frame (d : Disk) (pp : Path) (n : Name) :
    Triple (fun s => CD d s ∧ DirAt pp s) (doRm pp n false)
      (fun _ s => Consistent s ∧ FrameD d s.disk (n :: pp)) (fun s => Consistent s ∧ ViewD d s.disk) := by
  have hE : ∀ s, CD d s → Consistent s ∧ ViewD d s.disk :=
    fun s h => ⟨h.1, by rw [h.2]; exact ViewD.refl d⟩
  unfold doRm
  refine Triple.bind (Q := fun _ s => CD d s ∧ DirAt pp s) ?_ fun up => ?_
  · intro s hs
    refine ⟨fun a s' h => ?_, fun e s' h => ?_⟩ <;> cases h
    exact hs
  refine Triple.ite' (fun _ => Triple.fail' fun s h => hE s h.1) fun _ => ?_
  refine Triple.bind ((lookupSelf_cd_ready' d pp).conseq (fun _ h => h) (fun _ _ h => h) hE) fun _ => ?_
  apply Triple.ofOutcome
  intro s ⟨⟨hc, hd⟩, hdn, pm, hpm, hlo, hw, r, rest, hr⟩
  have := doRm_unlink_tail hc pp n hpm hlo hw hr
  revert this
  generalize (do
        let node ← lookupNode pp n
        if node.whiteout then fail ENOENT else do
        whenM false (rmDirPrep (n :: pp))
        copyNodeUp pp
        let node ← getNode (n :: pp)
        let pm ← getNode pp
        let s ← getSt
        rmFinish pp n false node pm (!(node.upperLayerOnly && !lowerEntryExists s.disk pm n)) : M Unit) s = res
  intro this
  cases res with
  | ok u s' => exact ⟨this.1, by rw [← hd]; exact (this.2.2 hdn).toD⟩
  | err e s' => exact ⟨this.1, by rw [← hd]; exact this.2 hdn⟩

/-- LOOKUP of the last component over a fixed disk -/
theorem doLookup_cd_keepsDir (d : Disk) (pp : Path) (n : Name) :
    Triple (fun s => CD d s ∧ DirAt pp s) (doLookup pp n) (fun _ s => CD d s ∧ DirAt pp s) (CD d) := by
  have := Triple.and (doLookup_keepsDir pp n) (doLookup_ro (loadDirectory_cd d) pp n)
  exact this.conseq (fun s h => ⟨⟨h.1.1, h.2⟩, h.1⟩) (fun _ s h => ⟨h.2, h.1.2⟩) (fun s h => h.2)

theorem runOp_unlink_frame (d : Disk) (p : List Name) :
    Triple (CD d) (runOp (.unlink p))
      (fun _ s => Consistent s ∧ FrameD d s.disk p.reverse) (fun s => Consistent s ∧ ViewD d s.disk) := by
  have hE : ∀ s, CD d s → Consistent s ∧ ViewD d s.disk :=
    fun s h => ⟨h.1, by rw [h.2]; exact ViewD.refl d⟩
  unfold runOp
  refine Triple.bind ((resolveParent_cd d p).conseq (fun _ h => h) (fun _ _ h => h) hE) fun r => Triple.pure_pre fun hpath => ?_
  obtain ⟨pp, n⟩ := r
  simp only at hpath
  refine Triple.bind ((doLookup_cd_keepsDir d pp n).conseq (fun _ h => h) (fun _ _ h => h) hE) fun st => ?_
  refine Triple.ite' (fun _ => Triple.fail' fun s h => hE s h.1) fun _ => ?_
  rw [← hpath]
  refine Triple.bind (doRm_unlink_frame d pp n) fun _ => ?_
  exact Triple.pure' fun _ h => h

theorem runOp_rmdir_frame (d : Disk) (p : List Name) :
    Triple (CD d) (runOp (.rmdir p))
      (fun _ s => Consistent s ∧ FrameD d s.disk p.reverse) (fun s => Consistent s ∧ ViewD d s.disk) := by
  have hE : ∀ s, CD d s → Consistent s ∧ ViewD d s.disk :=
    fun s h => ⟨h.1, by rw [h.2]; exact ViewD.refl d⟩
  unfold runOp
  refine Triple.bind ((resolveParent_cd d p).conseq (fun _ h => h) (fun _ _ h => h) hE) fun r => Triple.pure_pre fun hpath => ?_
  obtain ⟨pp, n⟩ := r
  simp only at hpath
  refine Triple.bind ((doLookup_cd_keepsDir d pp n).conseq (fun _ h => h) (fun _ _ h => h) hE) fun st => ?_
  refine Triple.ite' (fun _ => Triple.fail' fun s h => hE s h.1) fun _ => ?_
  rw [← hpath]
  refine Triple.bind ((doRm_rmdir_frame d pp n).pre fun _ h => h.1) fun _ => ?_
  exact Triple.pure' fun _ h => h

end Fbr.Ovl
