/-
  Helper lemmas for C04: FuseDevWriter `write_from(_at)` / `write_all_from` (a scripted source
  filling the one buffer `[buf.ptr + len, count)`), buffered and unbuffered, and the shape of the
  unbuffered `write` / `write_vectored`.
-/
import Fbr.Lemmas.XportFuseC

namespace Fbr.Xport

theorem nodup_segAddrs (s : Seg) : (segAddrs s).Nodup := by
  rw [List.nodup_iff_pairwise_ne]
  unfold segAddrs
  rw [List.pairwise_map]
  exact List.pairwise_lt_range.imp (fun h e => by
    have := congrArg Prod.snd e
    simp only at this
    omega)

theorem addrs_single (s : Seg) : addrs [s] = segAddrs s := by simp [addrs]

theorem take_addrs_single (s : Seg) (n : Nat) (h : n ≤ s.len) : (addrs [s]).take n = segAddrs { s with len := n } := by
  rw [addrs_single, segAddrs_take s n h]

/-- a scripted source asked to fill the free part of the writer's buffer -/
theorem fsrc_core (f : FuseW) (w : World) (src : Script) (count : Nat) (at_ : Option Nat)
    (hin : f.inMem w.mem) (hfit : f.len + count ≤ f.cap) :
    (src.readVectored w [⟨f.region, f.base + f.len, count⟩] at_).2.1.fd = w.fd
    ∧ (∀ x, ((src.readVectored w [⟨f.region, f.base + f.len, count⟩] at_).2.1.mem.get x).length = (w.mem.get x).length)
    ∧ rdAddrs (src.readVectored w [⟨f.region, f.base + f.len, count⟩] at_).2.1.log = rdAddrs w.log
    ∧ (∀ e, (src.readVectored w [⟨f.region, f.base + f.len, count⟩] at_).1 = .error e →
        (src.readVectored w [⟨f.region, f.base + f.len, count⟩] at_).2.1.mem = w.mem
        ∧ wrAddrs (src.readVectored w [⟨f.region, f.base + f.len, count⟩] at_).2.1.log = wrAddrs w.log)
    ∧ (∀ n, (src.readVectored w [⟨f.region, f.base + f.len, count⟩] at_).1 = .ok n → n ≤ count
        ∧ (∀ a, a ∉ segAddrs ⟨f.region, f.base + f.len, n⟩ →
            (src.readVectored w [⟨f.region, f.base + f.len, count⟩] at_).2.1.mem.byteAt a = w.mem.byteAt a)
        ∧ (segAddrs ⟨f.region, f.base + f.len, n⟩).map (src.readVectored w [⟨f.region, f.base + f.len, count⟩] at_).2.1.mem.byteAt
            = patBytes src.seed (at_.getD src.pos) n
        ∧ wrAddrs (src.readVectored w [⟨f.region, f.base + f.len, count⟩] at_).2.1.log
            = wrAddrs w.log ++ segAddrs ⟨f.region, f.base + f.len, n⟩) := by
  unfold FuseW.inMem at hin
  have hinm : InMem w.mem (addrs [⟨f.region, f.base + f.len, count⟩]) := by
    rw [addrs_single]
    intro a ha; rw [mem_segAddrs] at ha; rw [ha.1]; simp only at ha ⊢; omega
  obtain ⟨n0, hn0, _, ffd, _, fsel, fnsel, fok, ferr⟩ := readVectored_fok src w [⟨f.region, f.base + f.len, count⟩] at_
  obtain ⟨wl, wok, werr⟩ := readVectored_fwr src w [⟨f.region, f.base + f.len, count⟩] at_ hinm
  simp only [sel, if_true, Bool.not_true, Bool.false_eq_true, if_false] at fsel fnsel
  have htot : total [(⟨f.region, f.base + f.len, count⟩ : Seg)] = count := by simp [total]
  rw [htot] at hn0
  refine ⟨ffd, wl, fnsel, ?_, ?_⟩
  · intro e he
    have := ferr e he
    subst this
    exact ⟨werr e he, by simpa using fsel⟩
  · intro n hn
    have hnn := fok n hn
    subst hnn
    obtain ⟨_, wfr, wc⟩ := wok n hn
    rw [take_addrs_single _ _ (by simpa using hn0)] at wfr wc fsel
    exact ⟨hn0, wfr, wc (by rw [addrs_single]; exact nodup_segAddrs _), fsel⟩

theorem fcheckAvail_ok_any {f : FuseW} {sz : Nat} (h : f.checkAvail sz = .ok ()) : f.len + sz ≤ f.cap := by
  obtain ⟨_, h2, h3⟩ := checkAvail_ok h; omega

/-- `write_from(_at)`, any mode: shape; and the content of the bytes the source delivered -/
theorem fwriteFrom_fws (f : FuseW) (w : World) (src : Script) (count : Nat) (at_ : Option Nat) (hok : f.ok)
    (hin : f.inMem w.mem) :
    FwS ((FuseW.writeFrom f w src count at_).f.len - f.len) f w (FuseW.writeFrom f w src count at_).f
      (FuseW.writeFrom f w src count at_).w
    ∧ (segAddrs ⟨f.region, f.base + f.len, (FuseW.writeFrom f w src count at_).f.len - f.len⟩).map
        (FuseW.writeFrom f w src count at_).w.mem.byteAt
          = patBytes src.seed (at_.getD src.pos) ((FuseW.writeFrom f w src count at_).f.len - f.len)
    ∧ (f.buffered = true → (FuseW.writeFrom f w src count at_).w.fd = w.fd)
    ∧ (FuseW.writeFrom f w src count at_).aux.seed = src.seed
    ∧ (FuseW.writeFrom f w src count at_).aux.pos
        = srcPos at_ src.pos ((FuseW.writeFrom f w src count at_).f.len - f.len)
    ∧ (∀ n, (FuseW.writeFrom f w src count at_).res = .ok n → (FuseW.writeFrom f w src count at_).f.len - f.len = n)
    ∧ (∀ e, (FuseW.writeFrom f w src count at_).res = .error e → (FuseW.writeFrom f w src count at_).f.len - f.len = 0) := by
  unfold FuseW.writeFrom
  cases hc : f.checkAvail count with
  | error e =>
    simp only [Nat.sub_self, patBytes_zero]
    refine ⟨FwS.refl f w hok, by simp [segAddrs], fun _ => trivial, trivial, by cases at_ <;> rfl, ?_, fun _ _ => trivial⟩
    intro n hn; cases hn
  | ok u =>
    have hfit := fcheckAvail_ok_any hc
    obtain ⟨cfd, clen, crd, cerr, cok⟩ := fsrc_core f w src count at_ hin hfit
    obtain ⟨p1, p2, p3⟩ := readVectored_pos src w [⟨f.region, f.base + f.len, count⟩] at_
    simp only
    rcases hr : src.readVectored w [⟨f.region, f.base + f.len, count⟩] at_ with ⟨res, w1, s1⟩
    rw [hr] at cfd clen crd cerr cok p1 p2 p3
    simp only at cfd clen crd cerr cok p1 p2 p3
    cases res with
    | error e =>
      obtain ⟨em, el⟩ := cerr e rfl
      simp only [Nat.sub_self, patBytes_zero]
      refine ⟨⟨(f.with_len_self).symm, hok, clen, fun _ _ => by rw [em], fun a ha => Or.inl (by rw [← el]; exact ha), crd⟩,
        by simp [segAddrs], fun _ => cfd, p1, ?_, ?_, fun _ _ => trivial⟩
      · rw [p3 e rfl]; cases at_ <;> rfl
      · intro n hn; cases hn
    | ok cnt =>
      obtain ⟨hle, cfr, cc, cl⟩ := cok cnt rfl
      have hpos : s1.pos = srcPos at_ src.pos cnt := by rw [p2 cnt rfl]; cases at_ <;> rfl
      have hs : FwS cnt f w { f with len := f.len + cnt } w1 :=
        ⟨rfl, by omega, clen, cfr, fun a ha => by rw [cl, List.mem_append] at ha; exact ha, crd⟩
      simp only []
      by_cases hb : f.buffered = true
      · rw [if_pos hb]
        simp only [show f.len + cnt - f.len = cnt by omega]
        refine ⟨hs, cc, fun _ => cfd, p1, hpos, ?_, ?_⟩
        · intro n hn; cases hn; rfl
        · intro e he; cases he
      · rw [if_neg hb]
        simp only [show f.len + cnt - f.len = cnt by omega]
        refine ⟨?_, cc, (fun h => absurd h hb), p1, hpos, ?_, ?_⟩
        · exact ⟨rfl, hs.fits, hs.len, hs.frame, hs.wr, hs.rd⟩
        · intro n hn; cases hn; rfl
        · intro e he; cases he

/-- buffered `write_from(_at)`: content form -/
theorem fwriteFrom_fwc (f : FuseW) (w : World) (src : Script) (count : Nat) (at_ : Option Nat) (hb : f.buffered = true)
    (hok : f.ok) (hin : f.inMem w.mem) :
    FwC (patBytes src.seed (at_.getD src.pos) ((FuseW.writeFrom f w src count at_).f.len - f.len)) f w
      (FuseW.writeFrom f w src count at_).f (FuseW.writeFrom f w src count at_).w := by
  obtain ⟨h1, h2, h3, _⟩ := fwriteFrom_fws f w src count at_ hok hin
  exact ⟨by rw [length_patBytes]; exact h1, h3 hb, by rw [length_patBytes]; exact h2⟩

theorem FwS.len_eq {n : Nat} {f f' : FuseW} {w w' : World} (h : FwS n f w f' w') : f'.len = f.len + n := by
  rw [h.eq]

theorem FwS.delta {n : Nat} {f f' : FuseW} {w w' : World} (h : FwS n f w f' w') : FwS (f'.len - f.len) f w f' w' := by
  have := h.len_eq
  rw [show f'.len - f.len = n by omega]; exact h

theorem fwriteAllLoop_fws (fuel : Nat) (f : FuseW) (w : World) (src : Script) (count : Nat) (hok : f.ok)
    (hin : f.inMem w.mem) :
    ∃ n, FwS n f w (FuseW.writeAllLoop fuel f w src count).f (FuseW.writeAllLoop fuel f w src count).w
      ∧ (segAddrs ⟨f.region, f.base + f.len, n⟩).map (FuseW.writeAllLoop fuel f w src count).w.mem.byteAt
          = patBytes src.seed src.pos n
      ∧ (f.buffered = true → (FuseW.writeAllLoop fuel f w src count).w.fd = w.fd) := by
  induction fuel generalizing f w src count with
  | zero =>
    refine ⟨0, FwS.refl f w hok, ?_, ?_⟩
    · simp [segAddrs, patBytes_zero]
    · intro _; rfl
  | succ fuel ih =>
    unfold FuseW.writeAllLoop
    by_cases h0 : count = 0
    · simp only [h0, if_true]
      refine ⟨0, FwS.refl f w hok, ?_, ?_⟩
      · simp [segAddrs, patBytes_zero]
      · intro _; trivial
    · simp only [h0, if_false]
      obtain ⟨h1, c1, fd1, hseed, hpos, _, _⟩ := fwriteFrom_fws f w src count none hok hin
      simp only [Option.getD_none, srcPos] at c1 hpos
      have next : ∀ c, ∃ n, FwS n f w
          (FuseW.writeAllLoop fuel (FuseW.writeFrom f w src count none).f (FuseW.writeFrom f w src count none).w
            (FuseW.writeFrom f w src count none).aux c).f
          (FuseW.writeAllLoop fuel (FuseW.writeFrom f w src count none).f (FuseW.writeFrom f w src count none).w
            (FuseW.writeFrom f w src count none).aux c).w
          ∧ (segAddrs ⟨f.region, f.base + f.len, n⟩).map
              (FuseW.writeAllLoop fuel (FuseW.writeFrom f w src count none).f (FuseW.writeFrom f w src count none).w
                (FuseW.writeFrom f w src count none).aux c).w.mem.byteAt = patBytes src.seed src.pos n
          ∧ (f.buffered = true →
              (FuseW.writeAllLoop fuel (FuseW.writeFrom f w src count none).f (FuseW.writeFrom f w src count none).w
                (FuseW.writeFrom f w src count none).aux c).w.fd = w.fd) := by
        intro c
        obtain ⟨n2, h2, c2, fd2⟩ := ih (FuseW.writeFrom f w src count none).f (FuseW.writeFrom f w src count none).w
          (FuseW.writeFrom f w src count none).aux c h1.ok (h1.inMem hin)
        have e1 := h1.eq
        have hfl : (FuseW.writeFrom f w src count none).f.len
            = f.len + ((FuseW.writeFrom f w src count none).f.len - f.len) := congrArg FuseW.len e1
        have hfr : (FuseW.writeFrom f w src count none).f.region = f.region := by rw [e1]
        have hfb : (FuseW.writeFrom f w src count none).f.base = f.base := by rw [e1]
        have hfbuf : (FuseW.writeFrom f w src count none).f.buffered = f.buffered := by rw [e1]
        rw [hfr, hfb, hfl] at c2
        rw [hseed, hpos] at c2
        rw [hfbuf] at fd2
        refine ⟨_, h1.trans h2, ?_, fun hb => by rw [fd2 hb, fd1 hb]⟩
        rw [segAddrs_split, List.map_append, patBytes_add]
        simp only [Nat.add_assoc] at c2 ⊢
        rw [c2]
        congr 1
        refine Eq.trans ?_ c1
        apply List.map_congr_left
        intro a ha
        apply h2.frame
        rw [hfr, hfb, hfl]
        intro hy
        rw [mem_segAddrs] at ha hy
        simp only at ha hy
        omega
      split
      · exact ⟨_, h1, c1, fd1⟩
      · exact next _
      · exact next _
      · exact ⟨_, h1, c1, fd1⟩

theorem fwriteAllFrom_fws (f : FuseW) (w : World) (src : Script) (count : Nat) (hok : f.ok) (hin : f.inMem w.mem) :
    FwS ((FuseW.writeAllFrom f w src count).f.len - f.len) f w (FuseW.writeAllFrom f w src count).f
      (FuseW.writeAllFrom f w src count).w
    ∧ (segAddrs ⟨f.region, f.base + f.len, (FuseW.writeAllFrom f w src count).f.len - f.len⟩).map
        (FuseW.writeAllFrom f w src count).w.mem.byteAt
          = patBytes src.seed src.pos ((FuseW.writeAllFrom f w src count).f.len - f.len)
    ∧ (f.buffered = true → (FuseW.writeAllFrom f w src count).w.fd = w.fd) := by
  have key : ∃ n, FwS n f w (FuseW.writeAllFrom f w src count).f (FuseW.writeAllFrom f w src count).w
      ∧ (segAddrs ⟨f.region, f.base + f.len, n⟩).map (FuseW.writeAllFrom f w src count).w.mem.byteAt
          = patBytes src.seed src.pos n
      ∧ (f.buffered = true → (FuseW.writeAllFrom f w src count).w.fd = w.fd) := by
    unfold FuseW.writeAllFrom
    split
    · refine ⟨0, FwS.refl f w hok, ?_, ?_⟩
      · simp [segAddrs, patBytes_zero]
      · intro _; rfl
    · exact fwriteAllLoop_fws _ f w src count hok hin
  obtain ⟨n, h1, h2, h3⟩ := key
  have : (FuseW.writeAllFrom f w src count).f.len - f.len = n := by rw [h1.len_eq]; omega
  rw [this]; exact ⟨h1, h2, h3⟩

theorem fwriteAllFrom_fwc (f : FuseW) (w : World) (src : Script) (count : Nat) (hb : f.buffered = true)
    (hok : f.ok) (hin : f.inMem w.mem) :
    FwC (patBytes src.seed src.pos ((FuseW.writeAllFrom f w src count).f.len - f.len)) f w
      (FuseW.writeAllFrom f w src count).f (FuseW.writeAllFrom f w src count).w := by
  obtain ⟨h1, h2, h3⟩ := fwriteAllFrom_fws f w src count hok hin
  exact ⟨by rw [length_patBytes]; exact h1, h3 hb, by rw [length_patBytes]; exact h2⟩

/-! ### unbuffered `write` / `write_vectored`: straight to the descriptor, memory untouched -/

theorem fwrite_fws (f : FuseW) (w : World) (data : Bytes) (hok : f.ok) (hin : f.inMem w.mem) :
    FwS ((FuseW.write f w data).f.len - f.len) f w (FuseW.write f w data).f (FuseW.write f w data).w := by
  by_cases hb : f.buffered = true
  · exact (fwrite_fwc f w data hb hok hin).1.s.delta
  · unfold FuseW.write
    cases hc : f.checkAvail data.length with
    | error e => simp only [Nat.sub_self]; exact FwS.refl f w hok
    | ok u =>
      have hfit := fcheckAvail_ok_any hc
      simp only []
      rw [if_neg hb]
      simp only [show f.len + data.length - f.len = data.length by omega]
      exact ⟨rfl, hfit, fun _ => rfl, fun _ _ => rfl, fun _ h => Or.inl h, rfl⟩

theorem fwriteVectored_fws (f : FuseW) (w : World) (bufs : List Bytes) (hok : f.ok) (hin : f.inMem w.mem) :
    FwS ((FuseW.writeVectored f w bufs).f.len - f.len) f w (FuseW.writeVectored f w bufs).f
      (FuseW.writeVectored f w bufs).w := by
  by_cases hb : f.buffered = true
  · exact (fwriteVectored_fwc f w bufs hb hok hin).1.s.delta
  · unfold FuseW.writeVectored
    cases hc : f.checkAvail (bufs.foldl (fun acc x => acc + x.length) 0) with
    | error e => simp only [Nat.sub_self]; exact FwS.refl f w hok
    | ok u =>
      have hfit := fcheckAvail_ok_any hc
      simp only []
      rw [if_neg hb]
      by_cases he : bufs.isEmpty = true
      · rw [if_pos he]; simp only [Nat.sub_self]; exact FwS.refl f w hok
      · rw [if_neg he]
        have hl : (bufs.foldl (· ++ ·) []).length = bufs.foldl (fun acc x => acc + x.length) 0 := by
          rw [length_foldl_append]; rfl
        simp only [show f.len + (bufs.foldl (· ++ ·) []).length - f.len = (bufs.foldl (· ++ ·) []).length by omega]
        refine ⟨rfl, by rw [hl]; exact hfit, ?_, ?_, ?_, ?_⟩
        · intro x; unfold World.fdWritev; split <;> rfl
        · intro a _; unfold World.fdWritev; split <;> rfl
        · intro a ha; left; unfold World.fdWritev at ha; split at ha <;> exact ha
        · unfold World.fdWritev; split <;> rfl

end Fbr.Xport
