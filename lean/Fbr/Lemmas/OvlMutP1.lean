/-
  (P1) `create_upper_dir`, one level: a directory that exists only in lower layers gets an empty
  upper directory in front of its real inodes.
-/
import Fbr.Ovl
import Fbr.Lemmas.OvlExp
import Fbr.Lemmas.OvlSim
import Fbr.Lemmas.OvlLocal
import Fbr.Lemmas.OvlMut
import Fbr.Lemmas.OvlMutA

namespace Fbr.Ovl

theorem dirsIdx_congr (d d' : Disk) (p : Path) : ∀ l : List Nat, (∀ i ∈ l, d'.nodeAt i p = d.nodeAt i p) →
    dirsIdx d' p l = dirsIdx d p l
  | [], _ => rfl
  | i :: rest, h => by
    rw [dirsIdx, dirsIdx, h i (by simp), dirsIdx_congr d d' p rest (fun j hj => h j (List.mem_cons_of_mem _ hj))]

theorem cutW_congr (d d' : Disk) (p : Path) (l : List Nat) (h : ∀ i ∈ l, d'.nodeAt i p = d.nodeAt i p) :
    cutW d' p l = cutW d p l := by
  cases l with
  | nil => rfl
  | cons i rest =>
    rw [cutW, cutW, h i (by simp), dirsIdx_congr d d' p rest (fun j hj => h j (List.mem_cons_of_mem _ hj))]

theorem cutW_of_dir {d : Disk} {p : Path} {i : Nat} {rest : List Nat} (h : (d.nodeAt i p).isDir = true) :
    cutW d p (i :: rest) = dirsIdx d p (i :: rest) := by
  rw [cutW, dirsIdx, if_pos h]
  by_cases ho : (d.nodeAt i p).isOpaqueDir = true <;> simp [h, ho]

theorem cutW_head {d : Disk} {p : Path} {l : List Nat} {j : Nat} {t : List Nat} (h : cutW d p l = j :: t) :
    ∃ l', l = j :: l' := by
  cases l with
  | nil => simp [cutW] at h
  | cons i rest =>
    rw [cutW] at h
    split at h <;> (simp only [List.cons.injEq] at h; exact ⟨rest, by rw [h.1]⟩)

theorem dirsIdx_head {d : Disk} {p : Path} {l : List Nat} {j : Nat} {t : List Nat} (h : dirsIdx d p l = j :: t) :
    ∃ l', l = j :: l' ∧ (d.nodeAt j p).isDir = true := by
  cases l with
  | nil => simp [dirsIdx] at h
  | cons i rest =>
    rw [dirsIdx] at h
    split at h
    · rename_i hd
      split at h <;> (simp only [List.cons.injEq] at h; exact ⟨rest, by rw [h.1], by rw [← h.1]; exact hd⟩)
    · cases h

theorem filter_head {α : Type} {f : α → Bool} {l : List α} {j : α} {t : List α} (h : l.filter f = j :: t) :
    j ∈ l ∧ f j = true := by
  have : j ∈ l.filter f := by rw [h]; simp
  exact List.mem_filter.1 this

/-- the facts (P1) needs about a lower-only directory below an upper directory -/
theorem lowerDir_facts {s : St} (hc : Consistent s) (n : Name) (pp : Path) {pm m : MNode}
    (hpm : s.mem pp = some pm) (hm : s.mem (n :: pp) = some m)
    (hpu : pm.inUpper = true) (hmu : m.inUpper = false)
    {r : Real} {rest : List Real} (hr : m.reals = r :: rest) :
    -- the parent keeps the upper layer first, exactly
    (∃ t, expIdx s.disk pp = 0 :: t ∧ pm.reals = (expIdx s.disk pp).map (realOf s.disk pp)) ∧
    -- the node keeps lower layers only, exactly
    (∃ j t, expIdx s.disk (n :: pp) = j :: t ∧ j ≠ 0 ∧ r = realOf s.disk (n :: pp) j ∧
      m.reals = (expIdx s.disk (n :: pp)).map (realOf s.disk (n :: pp))) ∧
    -- the upper layer has a directory at `pp` and nothing at `n :: pp`
    (s.disk.nodeAt 0 pp).isDir = true ∧ (s.disk.nodeAt 0 (n :: pp)).isAbsent = true ∧
    (∃ tl, dirsIdx s.disk pp (expIdx s.disk pp) = 0 :: tl) := by
  have hroots := hc.roots
  -- node: exact, lower
  have hmform := realsOK_forms hroots (hc.reals _ m hm)
  have hm_exact : ∃ j t, expIdx s.disk (n :: pp) = j :: t ∧ j ≠ 0 ∧ r = realOf s.disk (n :: pp) j ∧
      m.reals = (expIdx s.disk (n :: pp)).map (realOf s.disk (n :: pp)) := by
    rcases hmform with h | ⟨i, _, hi0, h⟩
    · cases he : expIdx s.disk (n :: pp) with
      | nil => rw [he, hr] at h; cases h
      | cons j t =>
        rw [he, hr] at h
        simp only [List.map_cons, List.cons.injEq] at h
        refine ⟨j, t, rfl, ?_, h.1, by rw [hr, h.1, h.2]; rfl⟩
        intro hj
        have : m.inUpper = true := by simp [MNode.inUpper, hr, h.1, realOf, hj]
        rw [this] at hmu; cases hmu
    · have : m.inUpper = true := by simp [MNode.inUpper, h, staleOf, realOf, hi0]
      rw [this] at hmu; cases hmu
  obtain ⟨j, t, hej, hj0, hrj, hmex⟩ := hm_exact
  -- unfold the child stack
  have hexp : expIdx s.disk (n :: pp) = cutW s.disk (n :: pp)
      ((dirsIdx s.disk pp (expIdx s.disk pp)).filter fun i => !(s.disk.nodeAt i (n :: pp)).isAbsent) := rfl
  rw [hej] at hexp
  obtain ⟨c', hc'⟩ := cutW_head hexp.symm
  have hjmem := filter_head hc'
  -- parent: upper first
  have hpform := realsOK_forms hroots (hc.reals _ pm hpm)
  have hhead0 : ∃ t0, expIdx s.disk pp = 0 :: t0 := by
    rcases hpform with h | ⟨i, hi, hi0, _⟩
    · cases he : expIdx s.disk pp with
      | nil => rw [he] at hjmem; simp [dirsIdx] at hjmem
      | cons i0 t0 =>
        have : pm.inUpper = (i0 == 0) := by simp [MNode.inUpper, h, he, realOf]
        rw [hpu] at this
        have : i0 = 0 := by simpa using this.symm
        exact ⟨t0, by rw [this]⟩
    · exact ⟨[], by rw [hi, hi0]⟩
  obtain ⟨t0, ht0⟩ := hhead0
  -- the participating directories start with the upper layer
  have hdirs : ∃ tl, dirsIdx s.disk pp (expIdx s.disk pp) = 0 :: tl ∧ (s.disk.nodeAt 0 pp).isDir = true := by
    cases hd : dirsIdx s.disk pp (expIdx s.disk pp) with
    | nil => rw [hd] at hjmem; simp at hjmem
    | cons a tl =>
      obtain ⟨l', hl', hdir⟩ := dirsIdx_head hd
      rw [ht0] at hl'
      simp only [List.cons.injEq] at hl'
      rw [← hl'.1] at hdir
      exact ⟨tl, by rw [← hl'.1], hdir⟩
  obtain ⟨tl, htl, hdir0⟩ := hdirs
  -- the upper layer has nothing at the node's path
  have habs : (s.disk.nodeAt 0 (n :: pp)).isAbsent = true := by
    cases ha : (s.disk.nodeAt 0 (n :: pp)).isAbsent with
    | true => rfl
    | false =>
      rw [htl, List.filter_cons, ha] at hc'
      simp at hc'
      exact absurd hc'.1.symm hj0
  -- the parent is exact (a stale parent has the upper layer only)
  have hp_exact : pm.reals = (expIdx s.disk pp).map (realOf s.disk pp) := by
    rcases hpform with h | ⟨i, hi, hi0, _⟩
    · exact h
    · exfalso
      rw [hi, hi0] at hjmem
      have hsub := (dirsIdx_sublist s.disk pp [0]).subset hjmem.1
      simp at hsub
      exact hj0 hsub
  exact ⟨⟨t0, ht0, hp_exact⟩, ⟨j, t, hej, hj0, hrj, hmex⟩, hdir0, habs, ⟨tl, htl⟩⟩

theorem map_realOf_setUpper (d : Disk) (q : Path) (X : Node) (hu : d.upper.isSome) (p : Path) (l : List Nat)
    (h : p ≠ q ∨ ∀ i ∈ l, i ≠ 0) : l.map (realOf (d.setUpper q X) p) = l.map (realOf d p) := by
  apply List.map_congr_left
  intro i hi
  apply realOf_setUpper_ne d q X hu
  rintro ⟨h0, hp⟩
  rcases h with h | h
  · exact h hp
  · exact h i hi h0

/-- (P1) the state after `mkdir` of the upper directory and `add_upper_inode(ri, false)` -/
theorem upperDir_consistent {s : St} (hc : Consistent s) {L : Layer} (hup : s.disk.upper = some L)
    (n : Name) (pp : Path) {pm m : MNode}
    (hpm : s.mem pp = some pm) (hm : s.mem (n :: pp) = some m)
    (hpu : pm.inUpper = true) (hmu : m.inUpper = false)
    {r : Real} {rest : List Real} (hr : m.reals = r :: rest) (hdir : (s.disk.statReal r).isDir = true)
    (mode : Nat) (log' : List Call) :
    Consistent { s with
      disk := s.disk.setUpper (n :: pp) (.dir mode 0 0),
      mem := s.mem.set (n :: pp)
        (some { m with whiteout := false, reals := realOf (s.disk.setUpper (n :: pp) (.dir mode 0 0)) (n :: pp) 0 :: m.reals }),
      log := log' } := by
  obtain ⟨⟨t0, ht0, hpex⟩, ⟨j, t, hej, hj0, hrj, hmex⟩, hdir0, habs, ⟨tl, htl⟩⟩ :=
    lowerDir_facts hc n pp hpm hm hpu hmu hr
  have hu : s.disk.upper.isSome := by rw [hup]; rfl
  have hl := hc.toLocal
  have hsorted := expIdx_sorted s.disk (n :: pp)
  have hsortedp := expIdx_sorted s.disk pp
  -- abbreviations
  generalize hd' : s.disk.setUpper (n :: pp) (.dir mode 0 0) = d'
  have hnode : ∀ i p, d'.nodeAt i p = if i = 0 ∧ p = n :: pp then .dir mode 0 0 else s.disk.nodeAt i p := by
    intro i p; rw [← hd']; exact nodeAt_setUpper _ _ _ hu i p
  have hq0 : d'.nodeAt 0 (n :: pp) = .dir mode 0 0 := by rw [hnode]; simp
  -- indices of the node and of the participating parent directories do not contain 0 past the head
  have ht_pos : ∀ i ∈ j :: t, i ≠ 0 := by
    intro i hi
    simp at hi
    rcases hi with hi | hi
    · rw [hi]; exact hj0
    · have := (List.pairwise_cons.1 (hej ▸ hsorted)).1 i hi
      omega
  have htl_pos : ∀ i ∈ tl, i ≠ 0 := by
    have hsub : (0 :: tl).Sublist (0 :: t0) := by rw [← htl, ← ht0]; exact dirsIdx_sublist _ _ _
    have hs2 : (0 :: tl).Pairwise (· < ·) := (ht0 ▸ hsortedp).sublist hsub
    intro i hi
    have := (List.pairwise_cons.1 hs2).1 i hi
    omega
  -- the old candidates of the node
  have hcands : ((dirsIdx s.disk pp (expIdx s.disk pp)).filter fun i => !(s.disk.nodeAt i (n :: pp)).isAbsent) =
      tl.filter fun i => !(s.disk.nodeAt i (n :: pp)).isAbsent := by
    rw [htl, List.filter_cons]; simp [habs]
  have hexp : expIdx s.disk (n :: pp) = cutW s.disk (n :: pp)
      ((dirsIdx s.disk pp (expIdx s.disk pp)).filter fun i => !(s.disk.nodeAt i (n :: pp)).isAbsent) := rfl
  rw [hcands, hej] at hexp
  obtain ⟨c', hc'⟩ := cutW_head hexp.symm
  have hjdir : (s.disk.nodeAt j (n :: pp)).isDir = true := by
    rw [hrj] at hdir; exact hdir
  have hcpos : ∀ i ∈ j :: c', i ≠ 0 := by
    intro i hi
    have : i ∈ tl := by
      have : i ∈ tl.filter fun i => !(s.disk.nodeAt i (n :: pp)).isAbsent := by rw [hc']; exact hi
      exact (List.mem_filter.1 this).1
    exact htl_pos i this
  -- the node's stack is the participating-directory part of its candidates
  have heq_dirs : dirsIdx s.disk (n :: pp) (j :: c') = j :: t := by
    rw [← cutW_of_dir hjdir, ← hc']; exact hexp.symm
  -- H1: the new stack of the node
  have hpm' : pm.reals = (expIdx s.disk pp).map (realOf d' pp) := by
    rw [hpex, ← hd', map_realOf_setUpper _ _ _ hu _ _ (Or.inl (ne_cons_self n pp))]
  have hloc1 : localExp d' pm n = (0 :: j :: t).map (realOf d' (n :: pp)) := by
    rw [localExp_realOf d' pp _ pm hpm' n]
    congr 1
    have e1 : dirsIdx d' pp (expIdx s.disk pp) = 0 :: tl := by
      rw [dirsIdx_congr s.disk d' pp _ (fun i _ => by rw [hnode, if_neg (fun h => ne_cons_self n pp h.2)]), htl]
    rw [e1, List.filter_cons]
    have : (!(d'.nodeAt 0 (n :: pp)).isAbsent) = true := by rw [hq0]; rfl
    rw [if_pos this]
    have e2 : (tl.filter fun i => !(d'.nodeAt i (n :: pp)).isAbsent) = j :: c' := by
      rw [← hc']
      apply List.filter_congr
      intro i hi
      rw [hnode, if_neg (fun h => htl_pos i hi h.1)]
    rw [e2, cutW]
    have : ((d'.nodeAt 0 (n :: pp)).isDir && !(d'.nodeAt 0 (n :: pp)).isOpaqueDir) = true := by rw [hq0]; rfl
    rw [if_pos this]
    rw [dirsIdx_congr s.disk d' (n :: pp) (j :: c') (fun i hi => by rw [hnode, if_neg (fun h => hcpos i hi h.1)]), heq_dirs]
  have hmap : (j :: t).map (realOf d' (n :: pp)) = m.reals := by
    rw [hmex, hej, ← hd', map_realOf_setUpper _ _ _ hu _ _ (Or.inr ht_pos)]
  -- the changed node, in index form
  have hm'reals : (realOf d' (n :: pp) 0 :: m.reals) = (0 :: j :: t).map (realOf d' (n :: pp)) := by
    rw [List.map_cons, hmap]
  -- H2/H3: the children of the node are scanned as before
  have hkids : ∀ c, localExp d' { m with whiteout := false, reals := realOf d' (n :: pp) 0 :: m.reals } c =
      localExp s.disk m c := by
    intro c
    rw [localExp_realOf d' (n :: pp) (0 :: j :: t) _ hm'reals c,
      localExp_realOf s.disk (n :: pp) (j :: t) m (by rw [hmex, hej]) c]
    have e1 : dirsIdx d' (n :: pp) (0 :: j :: t) = 0 :: dirsIdx s.disk (n :: pp) (j :: t) := by
      rw [dirsIdx]
      have h1 : (d'.nodeAt 0 (n :: pp)).isDir = true := by rw [hq0]; rfl
      have h2 : (d'.nodeAt 0 (n :: pp)).isOpaqueDir = false := by rw [hq0]; rfl
      rw [if_pos h1, h2]
      simp only [Bool.false_eq_true, if_false]
      rw [dirsIdx_congr s.disk d' (n :: pp) (j :: t) (fun i hi => by rw [hnode, if_neg (fun h => ht_pos i hi h.1)])]
    have hcabs : (d'.nodeAt 0 (c :: n :: pp)).isAbsent = true := by
      rw [hnode, if_neg (fun h => cons_ne_self c (n :: pp) h.2)]
      have ht := hl.trees 0 L hup
      cases ha : (s.disk.nodeAt 0 (c :: n :: pp)).isAbsent with
      | true => rfl
      | false =>
        have h1 : (L (c :: n :: pp)).isAbsent = false := by simpa [Disk.nodeAt, Disk.layer, hup] using ha
        have h2 := ht c (n :: pp) h1
        have h3 : (L (n :: pp)).isAbsent = true := by simpa [Disk.nodeAt, Disk.layer, hup] using habs
        cases hx : L (n :: pp) <;> simp_all [Node.isDir, Node.isAbsent]
    rw [e1, List.filter_cons, hcabs]
    simp only [Bool.not_true, Bool.false_eq_true, if_false]
    have e2 : ((dirsIdx s.disk (n :: pp) (j :: t)).filter fun i => !(d'.nodeAt i (c :: n :: pp)).isAbsent) =
        ((dirsIdx s.disk (n :: pp) (j :: t)).filter fun i => !(s.disk.nodeAt i (c :: n :: pp)).isAbsent) := by
      apply List.filter_congr
      intro i _
      rw [hnode, if_neg (fun h => cons_ne_self c (n :: pp) h.2)]
    rw [e2, cutW_congr s.disk d' (c :: n :: pp) _ (fun i _ => by rw [hnode, if_neg (fun h => cons_ne_self c (n :: pp) h.2)])]
    rw [← hd', map_realOf_setUpper _ _ _ hu _ _ (Or.inl (cons_ne_self c (n :: pp)))]
  -- assemble
  have hstep : HostStep L (L.set (n :: pp) (.dir mode 0 0)) := by
    apply hostStep_mk
    · simpa [Disk.nodeAt, Disk.layer, hup] using hdir0
    · simpa [Disk.nodeAt, Disk.layer, hup] using habs
  have := consistent_setNode hc hup n pp (.dir mode 0 0) (m' := { m with whiteout := false, reals := realOf d' (n :: pp) 0 :: m.reals })
    hpm hm rfl rfl hstep
    (by rw [hd', hloc1]; exact Or.inl hm'reals)
    (by intro c cm hcm; rw [hd', hkids]; exact hl.child _ m c cm hm hcm)
    (by
      intro hlo c
      rw [hd', hkids]
      exact hl.kidsLoaded _ m hm hlo c)
    (by simp [headWhiteout, realOf, hq0, Node.isWhiteout])
    (by rw [hd', hloc1]; simp)
    log'
  rw [hd'] at this
  exact this

end Fbr.Ovl
