/-
  Fbr.Lemmas.SrvAsyncEq — the async building blocks observe like the sync ones.
-/
import Fbr.SrvAsync

namespace Fbr.SrvAsync
open Fbr.Srv Fbr.Wire Fbr.Conv

theorem forget_ofSync (r : Res) : forget (ofSync r) = r := by
  cases r; rfl

theorem forget_aEmit (cfg : Cfg) (m : Bytes) (p : Bool) :
    ({ sys := (aEmit cfg m p).sys, area := (aEmit cfg m p).area } : Out) = emit cfg m := by
  unfold aEmit emit
  cases cfg.fusedev <;> rfl

theorem forget_aErrRes (cfg : Cfg) (u : Nat) (calls : List Call) (al : List Nat) (e : IoErr) :
    forget (aErrRes cfg u calls al e) = errRes cfg u calls al e := by
  unfold forget aErrRes errRes aReplyErr replyErr COMMIT_UNBUFFERED
  by_cases h : OUT_HDR > cfg.cap
  · simp [h]
  · simp only [h, if_false, Bool.and_false, Bool.false_eq_true]
    have := forget_aEmit cfg (outHeader OUT_HDR (errField e) u) true
    simp only [this]

theorem forget_aOkRes (cfg : Cfg) (u : Nat) (calls : List Call) (al : List Nat) (b d : Bytes) :
    forget (aOkRes cfg u calls al b d) = okRes cfg u calls al b d cfg.minor := by
  unfold forget aOkRes okRes aReplyOk replyOk
  by_cases h : OUT_HDR + b.length + d.length > cfg.cap
  · simp [h]
  · simp only [h, if_false]
    have := forget_aEmit cfg (outHeader (OUT_HDR + b.length + d.length) 0 u ++ b ++ d) (b.isEmpty && d.isEmpty)
    simp only [this]

theorem forget_aFinish (cfg : Cfg) (u : Nat) (calls : List Call) (al : List Nat) (a : Ans)
    (okb : Ans → Option (Bytes × Bytes)) :
    forget (aFinish cfg u calls al a okb) = finish cfg u calls al a okb := by
  cases a <;> simp only [aFinish, finish] <;>
    first
    | exact forget_aErrRes _ _ _ _ _
    | (split
       · next b d heq => simp only [heq]; exact forget_aOkRes _ _ _ _ _ _
       · next heq => simp only [heq]; exact forget_aErrRes _ _ _ _ _)

theorem forget_aBail (cfg : Cfg) (calls : List Call) (al : List Nat) (e : SrvErr) :
    forget (aBail cfg calls al e) = bail cfg calls al e := rfl

theorem forget_aSimple (cfg : Cfg) (fs : Call → Ans) (u : Nat) (calls0 : List Call) (c : Call)
    (al : List Nat) (okb : Ans → Option (Bytes × Bytes)) :
    forget (aSimple cfg fs u calls0 c al okb) = simple cfg fs u calls0 c al okb :=
  forget_aFinish _ _ _ _ _ _

theorem forget_aWithObj (cfg : Cfg) (calls0 : List Call) (r : Bytes) (n : Nat) (k : Bytes → ARes)
    (k' : Bytes → Res) (h : ∀ b, forget (k b) = k' b) :
    forget (aWithObj cfg calls0 r n k) = withObj cfg calls0 r n k' := by
  unfold aWithObj withObj
  split
  · rfl
  · exact h _

theorem forget_aNamed (cfg : Cfg) (u : Nat) (calls0 : List Call) (hdrLen : Nat) (r : Bytes) (sub : Nat)
    (k : Bytes → List Nat → ARes) (k' : Bytes → List Nat → Res) (h : ∀ nm al, forget (k nm al) = k' nm al) :
    forget (aNamed cfg u calls0 hdrLen r sub k) = named cfg u calls0 hdrLen r sub k' := by
  unfold aNamed named
  cases hg : getBody hdrLen sub (r.drop sub) with
  | error e => rfl
  | ok bn =>
    obtain ⟨body, n⟩ := bn
    simp only
    cases hc : cstr body with
    | none =>
      simp only
      have := forget_aErrRes cfg u calls0 [n] (.os EINVAL)
      unfold badName
      rw [← this]
      rfl
    | some name => simp only; exact h _ _

theorem forget_aLookupReply (cfg : Cfg) (u : Nat) (calls : List Call) (al : List Nat) (a : Ans) :
    forget (aLookupReply cfg u calls al a) = lookupReply cfg u calls al a := by
  cases a <;> simp only [aLookupReply, lookupReply] <;>
    first
    | exact forget_aFinish _ _ _ _ _ _
    | (split
       · exact forget_aErrRes _ _ _ _ _
       · exact forget_aFinish _ _ _ _ _ _)

theorem forget_aSplitErr (cfg : Cfg) (u : Nat) (calls : List Call) (e : IoErr) :
    forget (aSplitErr cfg u calls e) = splitErr cfg u calls e [] := by
  unfold forget aSplitErr splitErr aEmit
  cases cfg.fusedev <;> simp

theorem forget_aSplitOk (cfg : Cfg) (u : Nat) (calls : List Call) (p : Bytes) :
    forget (aSplitOk cfg u calls p) = splitOk cfg u calls p := by
  unfold forget aSplitOk splitOk
  have := forget_aEmit cfg (outHeader ((OUT_HDR + p.length) % 2 ^ 32) 0 u ++ p) p.isEmpty
  simp only [this]

theorem forget_aReadReply (cfg : Cfg) (u : Nat) (calls : List Call) (a : Ans) :
    forget (aReadReply cfg u calls a) = readReply cfg u calls a := by
  cases a <;> simp only [aReadReply, readReply] <;>
    first
    | exact forget_aSplitErr _ _ _ _
    | (split
       · exact forget_aSplitErr _ _ _ _
       · exact forget_aSplitOk _ _ _ _)

end Fbr.SrvAsync
