/-
  Fbr.Lemmas.PtHostOwner — "objects created for a caller are owned by that caller", trace level.

  * `HCall.creates`: the calls that can bring a new object into existence;
  * `OwnerLaws H`: the two host laws about creation (only creating calls create; a new object
    belongs to the creating thread's fsuid, and to its fsgid or the set-gid directory's group) —
    `Fbr.Lemmas.HostRefOwner` proves them of the reference FS;
  * `Steps H R p s`: every call `p` issues, run from `s`, satisfies `R` in the state it is issued in;
  * every creating call of mkdir / mknod / symlink / create is issued with the caller's effective
    ids (`steps_withCreds`: inside the `set_creds` scope entered from the root state), every other
    call of every request creates nothing.
-/
import Fbr.Lemmas.PtHostNeutral
import Fbr.Lemmas.PtHostDirect
import Fbr.Lemmas.PtHostSpec

namespace Fbr.Host

/-- calls that can bring a new object into existence -/
def HCall.creates : HCall → Bool
  | .openat _ _ fl _ => has fl O_CREAT
  | .mkdirat .. | .mknodat .. | .symlinkat .. => true
  | _ => false

/-- the directory descriptor of a creating call -/
def HCall.dirFd : HCall → Option Fd
  | .openat d _ _ _ | .mkdirat d _ _ | .mknodat d _ _ _ | .symlinkat _ d _ => some d
  | _ => none

end Fbr.Host

namespace Fbr.PtHost
open Fbr.Host

variable {σ : Type} {α β : Type}

def S_ISGID : Nat := 1024

/-- the group of a new object: the creating thread's, or the group of the set-gid directory it is
    created in -/
def GidOk (H : HostOps σ) (s : σ) (c : HCall) (gid : Nat) (n : Node) : Prop :=
  n.gid = gid ∨
  ∃ df d dn, c.dirFd = some df ∧ H.fdObj s df = some d ∧ H.view s d = some dn ∧ has dn.perm S_ISGID = true ∧ n.gid = dn.gid

/-- host laws about object creation -/
class OwnerLaws (H : HostOps σ) : Prop where
  /-- only creating calls bring objects into existence -/
  new_only : ∀ s c o, c.creates = false → H.view s o = none → H.view (H.step s c).2 o = none
  /-- a new object is owned by the creating thread: its fsuid; its fsgid, or the directory's group
      when the directory is set-gid -/
  new_owner : ∀ s c o n, H.view s o = none → H.view (H.step s c).2 o = some n →
    n.uid = (H.creds s).euid ∧ GidOk H s c (H.creds s).egid n

/-- every call of the run satisfies `R` in the state it is issued in -/
def Steps (H : HostOps σ) (R : σ → HCall → Prop) : Prog α → σ → Prop
  | .pure _, _ => True
  | .call c k, s => R s c ∧ Steps H R (k (H.step s c).1) (H.step s c).2

theorem steps_mono {H : HostOps σ} {R R' : σ → HCall → Prop} (hr : ∀ s c, R s c → R' s c) (p : Prog α) (s : σ)
    (h : Steps H R p s) : Steps H R' p s := by
  induction p generalizing s with
  | pure a => trivial
  | call c k ih => exact ⟨hr _ _ h.1, ih _ _ h.2⟩

theorem steps_bind {H : HostOps σ} {R : σ → HCall → Prop} (p : Prog α) (f : α → Prog β) (s : σ)
    (hp : Steps H R p s) (hf : Steps H R (f (val H p s)) (fin H p s)) : Steps H R (p.bind f) s := by
  induction p generalizing s with
  | pure a => exact hf
  | call c k ih => exact ⟨hp.1, ih _ _ hp.2 hf⟩

theorem steps_of_only {H : HostOps σ} {R : σ → HCall → Prop} {P : HCall → Prop} (hpr : ∀ s c, P c → R s c)
    (p : Prog α) (hp : p.OnlyCalls P) (s : σ) : Steps H R p s := by
  induction p generalizing s with
  | pure a => trivial
  | call c k ih => exact ⟨hpr _ _ hp.1, ih _ (hp.2 _) _⟩

theorem stepsM_bind {H : HostOps σ} {R : σ → HCall → Prop} (m : M α) (f : α → M β) (pt : PtState) (s : σ)
    (hm : Steps H R (m pt) s)
    (hf : ∀ a, (val H (m pt) s).1 = .ok a → Steps H R (f a (val H (m pt) s).2) (fin H (m pt) s)) :
    Steps H R ((m >>= f) pt) s := by
  show Steps H R (M.bind' m f pt) s
  unfold M.bind'
  refine steps_bind _ _ _ hm ?_
  cases hv : (val H (m pt) s).1 with
  | ok a => simp only []; exact hf a hv
  | error e => simp only []; trivial

/-- the call creates nothing -/
def NoCreate (c : HCall) : Prop := c.creates = false

theorem permits_noCreate : Permits NoCreate := by
  refine ⟨fun c h => ?_⟩
  cases c <;> simp only [HCall.readOnly, Bool.and_eq_true, Bool.not_eq_true', Bool.false_eq_true] at h <;>
    first | rfl | (exact h.1)

theorem open_noCreate (c : HCall) (h : IsOpenCall c) : NoCreate c := by
  cases c <;> first | rfl | cases h

/-- a creating call is issued with effective ids `uid` / `gid` -/
def AsCaller (H : HostOps σ) (uid gid : Nat) : σ → HCall → Prop :=
  fun s c => c.creates = true → (H.creds s).euid = uid ∧ (H.creds s).egid = gid

theorem steps_noCreate {H : HostOps σ} (uid gid : Nat) (m : M α) (hm : OnlyM NoCreate m) (pt : PtState) (s : σ) :
    Steps H (AsCaller H uid gid) (m pt) s :=
  steps_of_only (fun _ c hc hcr => by rw [hc] at hcr; cases hcr) _ (hm.h pt) s

/-- an inert prefix without creating calls: the rest starts with the same credentials -/
theorem steps_prefix {H : HostOps σ} (uid gid : Nat) (m : M α) (f : α → M β) (hi : InertM H m) (ho : OnlyM NoCreate m)
    (pt : PtState) (s : σ)
    (hk : ∀ a pt' s', H.creds s' = H.creds s → Steps H (AsCaller H uid gid) (f a pt') s') :
    Steps H (AsCaller H uid gid) ((m >>= f) pt) s :=
  stepsM_bind m f pt s (steps_noCreate uid gid m ho pt s) (fun a _ => hk a _ _ (hi.h pt s))

theorem inScope_ids (c0 : Creds) (hroot : c0.Root) (uid gid : Nat) :
    (inScope c0 uid gid).euid = uid ∧ (inScope c0 uid gid).egid = gid := by
  obtain ⟨r1, r2, _⟩ := hroot
  by_cases hu : uid = 0 <;> by_cases hg : gid = 0 <;> simp [inScope, Creds.afterSetuid, hu, hg, r1, r2]

section
variable {H : HostOps σ} [L : HostLaws H]

/-- **the guarded block**: entered from the root state, the body runs with the caller's ids; the
    guard set-up and drop create nothing -/
theorem steps_withCreds (uid gid : Nat) (body : M α) (pt : PtState) (s : σ) (hroot : (H.creds s).Root)
    (hb : ∀ pt' s', H.creds s' = inScope (H.creds s) uid gid → Steps H (AsCaller H uid gid) (body pt') s') :
    Steps H (AsCaller H uid gid) (withCreds uid gid body pt) s := by
  have hp := permits_noCreate
  have hbase : Base (H.creds s) := ⟨hroot.1, hroot.2.1, fun e => by rw [← hroot.2.2]; exact e⟩
  unfold withCreds
  refine stepsM_bind _ _ pt s (steps_noCreate uid gid _ (ro_setCreds hp uid gid) pt s) ?_
  intro g hg
  -- inside the scope
  have hsc : H.creds (fin H (setCreds uid gid pt) s) = inScope (H.creds s) uid gid := by
    have := hoareM_setCreds (H := H) (H.creds s) hbase uid gid pt s rfl
    rcases this with ⟨_, h2⟩ | ⟨⟨e, he⟩, _⟩
    · exact h2
    · rw [hg] at he; cases he
  refine stepsM_bind _ _ _ _ ?_ ?_
  · unfold M.try'
    exact steps_bind _ _ _ (hb _ _ hsc) trivial
  · intro r _
    exact steps_noCreate uid gid _ (onlyM_bind (ro_dropCreds hp g) (fun _ => onlyM_ofExcept _)) _ _

omit L in
theorem steps_unitCall (uid gid : Nat) (c : HCall) (pt : PtState) (s : σ)
    (h : (H.creds s).euid = uid ∧ (H.creds s).egid = gid) : Steps H (AsCaller H uid gid) (unitCall c pt) s := by
  unfold unitCall
  refine stepsM_bind _ _ pt s ⟨fun _ => h, trivial⟩ ?_
  intro a _
  cases a <;> trivial

omit L in
theorem steps_createFileExcl (uid gid : Nat) (d : Fd) (n : Name) (fl m : Nat) (pt : PtState) (s : σ)
    (h : (H.creds s).euid = uid ∧ (H.creds s).egid = gid) :
    Steps H (AsCaller H uid gid) (createFileExcl d n fl m pt) s := by
  unfold createFileExcl
  refine stepsM_bind _ _ pt s ⟨fun _ => h, trivial⟩ ?_
  intro a _
  cases a with
  | err e =>
    simp only []
    split
    · split <;> trivial
    · trivial
  | _ => trivial

/-! ### the creating requests -/

theorem steps_mkdir (cfg : Cfg) (ctx : Ctx) (p : Nat) (n : Name) (m u : Nat) (pt : PtState) (s : σ)
    (hroot : (H.creds s).Root) : Steps H (AsCaller H ctx.uid ctx.gid) (mkdir cfg ctx p n m u pt) s := by
  have hp := permits_noCreate
  unfold mkdir
  refine steps_prefix _ _ _ _ (inertM_validateName cfg n) (ro_validateName cfg n) pt s (fun _ pt1 s1 e1 => ?_)
  refine steps_prefix _ _ _ _ (inertM_inodeData p) (ro_inodeData p) pt1 s1 (fun d pt2 s2 e2 => ?_)
  refine steps_prefix _ _ _ _ (inertM_getFile d) (ro_getFile hp d) pt2 s2 (fun f pt3 s3 e3 => ?_)
  have hr3 : (H.creds s3).Root := by rw [e3, e2, e1]; exact hroot
  refine stepsM_bind _ _ pt3 s3 (steps_withCreds _ _ _ pt3 s3 hr3 (fun pt' s' hs => ?_)) (fun _ _ => ?_)
  · exact steps_unitCall _ _ _ pt' s' (by rw [hs]; exact inScope_ids _ hr3 _ _)
  · exact steps_noCreate _ _ _ (onlyM_bind (ro_doLookup hp cfg p n) (fun _ => onlyM_pure _)) _ _

theorem steps_mknod (cfg : Cfg) (ctx : Ctx) (p : Nat) (n : Name) (m r u : Nat) (pt : PtState) (s : σ)
    (hroot : (H.creds s).Root) : Steps H (AsCaller H ctx.uid ctx.gid) (mknod cfg ctx p n m r u pt) s := by
  have hp := permits_noCreate
  unfold mknod
  refine steps_prefix _ _ _ _ (inertM_validateName cfg n) (ro_validateName cfg n) pt s (fun _ pt1 s1 e1 => ?_)
  refine steps_prefix _ _ _ _ (inertM_inodeData p) (ro_inodeData p) pt1 s1 (fun d pt2 s2 e2 => ?_)
  refine steps_prefix _ _ _ _ (inertM_getFile d) (ro_getFile hp d) pt2 s2 (fun f pt3 s3 e3 => ?_)
  have hr3 : (H.creds s3).Root := by rw [e3, e2, e1]; exact hroot
  refine stepsM_bind _ _ pt3 s3 (steps_withCreds _ _ _ pt3 s3 hr3 (fun pt' s' hs => ?_)) (fun _ _ => ?_)
  · exact steps_unitCall _ _ _ pt' s' (by rw [hs]; exact inScope_ids _ hr3 _ _)
  · exact steps_noCreate _ _ _ (onlyM_bind (ro_doLookup hp cfg p n) (fun _ => onlyM_pure _)) _ _

theorem steps_symlink (cfg : Cfg) (ctx : Ctx) (t : Name) (p : Nat) (n : Name) (pt : PtState) (s : σ)
    (hroot : (H.creds s).Root) : Steps H (AsCaller H ctx.uid ctx.gid) (symlink cfg ctx t p n pt) s := by
  have hp := permits_noCreate
  unfold symlink
  refine steps_prefix _ _ _ _ (inertM_validateName cfg n) (ro_validateName cfg n) pt s (fun _ pt1 s1 e1 => ?_)
  refine steps_prefix _ _ _ _ (inertM_inodeData p) (ro_inodeData p) pt1 s1 (fun d pt2 s2 e2 => ?_)
  refine steps_prefix _ _ _ _ (inertM_getFile d) (ro_getFile hp d) pt2 s2 (fun f pt3 s3 e3 => ?_)
  have hr3 : (H.creds s3).Root := by rw [e3, e2, e1]; exact hroot
  refine stepsM_bind _ _ pt3 s3 (steps_withCreds _ _ _ pt3 s3 hr3 (fun pt' s' hs => ?_)) (fun _ _ => ?_)
  · exact steps_unitCall _ _ _ pt' s' (by rw [hs]; exact inScope_ids _ hr3 _ _)
  · exact steps_noCreate _ _ _ (onlyM_bind (ro_doLookup hp cfg p n) (fun _ => onlyM_pure _)) _ _

theorem steps_create (cfg : Cfg) (ctx : Ctx) (p : Nat) (n : Name) (fl m u ff : Nat) (pt : PtState) (s : σ)
    (hroot : (H.creds s).Root) : Steps H (AsCaller H ctx.uid ctx.gid) (create cfg ctx p n fl m u ff pt) s := by
  have hp := permits_noCreate
  unfold create
  refine steps_prefix _ _ _ _ (inertM_validateName cfg n) (ro_validateName cfg n) pt s (fun _ pt1 s1 e1 => ?_)
  refine steps_prefix _ _ _ _ (inertM_inodeData p) (ro_inodeData p) pt1 s1 (fun d pt2 s2 e2 => ?_)
  refine steps_prefix _ _ _ _ (inertM_getFile d) (ro_getFile hp d) pt2 s2 (fun f pt3 s3 e3 => ?_)
  have hr3 : (H.creds s3).Root := by rw [e3, e2, e1]; exact hroot
  refine stepsM_bind _ _ pt3 s3 (steps_withCreds _ _ _ pt3 s3 hr3 (fun pt' s' hs => ?_)) (fun nf _ => ?_)
  · exact steps_createFileExcl _ _ _ _ _ _ pt' s' (by rw [hs]; exact inScope_ids _ hr3 _ _)
  · refine steps_noCreate _ _ _ ?_ _ _
    refine onlyM_bind (ro_doLookup hp cfg p n) (fun e => ?_)
    refine onlyM_bind ?_ (fun file => onlyM_bind (ro_createHandle _ _ _ _) (fun _ => onlyM_pure _))
    split
    · exact onlyM_pure _
    · exact ro_createOpenExisting hp open_noCreate _ _ _ _ _

end

/-! ### requests and histories -/

/-- the caller a request creates objects for -/
def Req.caller : Req → Option Ctx
  | .symlink c .. | .mknod c .. | .mkdir c .. | .create c .. => some c
  | _ => none

/-- every object that comes into existence at some step of the run is, at that moment, owned by
    `uid`, with group `gid` (or the set-gid directory's) -/
def NewOwned (H : HostOps σ) (uid gid : Nat) (p : Prog α) (s : σ) : Prop :=
  Steps H (fun s c => ∀ o n, H.view s o = none → H.view (H.step s c).2 o = some n → n.uid = uid ∧ GidOk H s c gid n) p s

/-- no object comes into existence at any step of the run -/
def NoNew (H : HostOps σ) (p : Prog α) (s : σ) : Prop :=
  Steps H (fun s c => ∀ o, H.view s o = none → H.view (H.step s c).2 o = none) p s

/-- what a request may create -/
def ReqOwned (H : HostOps σ) (cfg : Cfg) (pt : PtState) (r : Req) (s : σ) : Prop :=
  match r.caller with
  | some ctx => NewOwned H ctx.uid ctx.gid (step cfg pt r) s
  | none => NoNew H (step cfg pt r) s

theorem newOwned_of_asCaller {H : HostOps σ} [O : OwnerLaws H] (uid gid : Nat) (p : Prog α) (s : σ)
    (h : Steps H (AsCaller H uid gid) p s) : NewOwned H uid gid p s := by
  refine steps_mono ?_ p s h
  intro s c hc o n h0 h1
  cases hcr : c.creates with
  | false => have := O.new_only s c o hcr h0; rw [this] at h1; cases h1
  | true =>
    obtain ⟨e1, e2⟩ := hc hcr
    have := O.new_owner s c o n h0 h1
    rw [e1, e2] at this
    exact this

theorem allowed_noCreate (r : Req) (hr : r.caller = none) (c : HCall) (h : Allowed r c) : NoCreate c := by
  rcases h with h | h
  · exact permits_noCreate.ro c h
  · show c.creates = false
    cases r <;> simp only [Req.caller] at hr <;> simp only [DirectCall] at h
    all_goals first
      | (cases hr; done)
      | exact open_noCreate c h
      | (obtain ⟨_, rfl⟩ := h; rfl; done)
      | (obtain ⟨_, _, rfl⟩ := h; rfl; done)
      | (rcases h with ⟨_, rfl⟩ | h2
         · rfl
         · exact open_noCreate c h2)
      | skip
    -- setattr
    rcases h with ⟨_, _, rfl | rfl⟩ | ⟨_, _, rfl⟩ | ⟨_, ⟨_, rfl⟩ | h⟩ | ⟨_, _, rfl | rfl⟩ <;>
      first | rfl | exact open_noCreate c ‹IsOpenCall c›

/-- **one request**, from the root state: the objects it creates are the caller's; a request that
    is not mkdir / mknod / symlink / create creates nothing -/
theorem reqOwned {H : HostOps σ} [L : HostLaws H] [O : OwnerLaws H] (cfg : Cfg) (pt : PtState) (r : Req) (s : σ)
    (hroot : (H.creds s).Root) : ReqOwned H cfg pt r s := by
  unfold ReqOwned
  cases hc : r.caller with
  | none =>
    simp only []
    have hall := (allowed_handle cfg r).h pt
    refine steps_of_only (P := NoCreate) ?_ _ (onlyCalls_mono _ hall (allowed_noCreate r hc)) s
    intro s c hn o h0
    exact O.new_only s c o hn h0
  | some ctx =>
    simp only []
    apply newOwned_of_asCaller
    cases r <;> simp only [Req.caller, Option.some.injEq] at hc
    all_goals first | (cases hc; done) | skip
    all_goals (subst hc; simp only [step, handle])
    · exact steps_symlink _ _ _ _ _ _ _ hroot
    · exact steps_mknod _ _ _ _ _ _ _ _ _ hroot
    · exact steps_mkdir _ _ _ _ _ _ _ _ hroot
    · exact steps_create _ _ _ _ _ _ _ _ _ _ hroot

/-- `ReqOwned` along a whole history -/
def HistOwned (H : HostOps σ) (cfg : Cfg) : PtState → σ → List Req → Prop
  | _, _, [] => True
  | pt, s, r :: rs =>
    ReqOwned H cfg pt r s ∧ HistOwned H cfg (val H (step cfg pt r) s).2 (fin H (step cfg pt r) s) rs

theorem histOwned {H : HostOps σ} [L : HostLaws H] [O : OwnerLaws H] (cfg : Cfg) (rs : List Req) :
    ∀ (pt : PtState) (s : σ), (H.creds s).Root → HistOwned H cfg pt s rs := by
  induction rs with
  | nil => intro _ _ _; trivial
  | cons r rs ih =>
    intro pt s hroot
    refine ⟨reqOwned cfg pt r s hroot, ih _ _ ?_⟩
    have hb : Base (H.creds s) := ⟨hroot.1, hroot.2.1, fun e => by rw [← hroot.2.2]; exact e⟩
    have h1 : H.creds (fin H (step cfg pt r) s) = H.creds s := ((neutralM_handle (H := H) cfg r).h pt s hb).root hroot
    rw [h1]; exact hroot

end Fbr.PtHost
