/-
  C08: every request is a composition of `do_lookup` effects, `forget_one`s and steps that leave
  the stored entries alone; the composition refines `Spec.step`.
-/
import Fbr.Lemmas.PtRef
import Fbr.Lemmas.PtEffectU

namespace Fbr.PtRefs

/-- `s, sp ⟶ s', sp'`: the server state and the client ledger move together.  The flag says
    whether the root was (re-)imported or the tables cleared on the way (`init`, `destroy`).
    The parameter `nf` ("no file handles") restricts the derivation: when it is `true`, every host
    answer a lookup was handed, and every imported root, carries no file handle
    (`inode_file_handles` off); `nf = false` restricts nothing. -/
inductive Tr (e : Env) (nf : Bool) : Bool → St → Spec → St → Spec → Prop
  | frame {s s' : St} {sp : Spec} (hd : s'.data = s.data) (hc : s'.clobbered = s.clobbered)
      (hl : s'.lookups = s.lookups) (hb : s'.byId = s.byId) (hy : s'.byHandle = s.byHandle)
      (hn : s'.next = s.next) (ha : AllocSame s s') : Tr e nf false s sp s' sp
  | lookup {s s' : St} {sp : Spec} {r : Except Errno Ino} {a : HAns} (h : LkEff e s s' r)
      (hu : LkU e s s' a r) (hf : nf = true → a.NoFh) :
      Tr e nf false s sp s' (sp.afterLookup r)
  | forget {s : St} {sp : Spec} (i : Ino) (n : Nat) :
      Tr e nf false s sp (forgetOne e s i n) (sp.forget i n)
  | hnds {s : St} {sp : Spec} (h : List (Hnd × Ino)) : Tr e nf false s sp s { sp with hnds := h }
  | setRoot {s s' : St} {sp : Spec} {d : IData} (hd : s'.data = mput s.data ROOT_ID d)
      (hr : d.refs = 2) (hc : s'.clobbered = s.clobbered) (hl : s'.lookups = s.lookups)
      (hb : s'.byId = mput s.byId d.id ROOT_ID)
      (hy : s'.byHandle = (match d.fh with
        | some h => mput s.byHandle h ROOT_ID
        | none => s.byHandle))
      (hn : s'.next = s.next) (ha : AllocSame s s') (hf : nf = true → d.fh = none) : Tr e nf true s sp s' sp
  | clear {s s' : St} {sp : Spec} (hd : s'.data = []) (hc : s'.clobbered = s.clobbered)
      (hl : s'.lookups = s.lookups) (hb : s'.byId = []) (hy : s'.byHandle = [])
      (hn : s'.next = s.next) (ha : AllocSame s s') : Tr e nf true s sp s' Spec.init
  | trans {b1 b2 : Bool} {a b c : St} {sa sb sc : Spec} :
      Tr e nf b1 a sa b sb → Tr e nf b2 b sb c sc → Tr e nf (b1 || b2) a sa c sc
  | relax {s s' : St} {sp sp' : Spec} : Tr e nf false s sp s' sp' → Tr e nf true s sp s' sp'

theorem Tr.of_tables {e : Env} {nf : Bool} {s s' : St} {sp : Spec} (h : s'.tables = s.tables) :
    Tr e nf false s sp s' sp :=
  .frame (data_of_tables h) (clob_of_tables h) (lookups_of_tables h) (byId_of_tables h)
    (byHandle_of_tables h) (next_of_tables h) (AllocSame.of_tables h)

theorem Tr.rfl' {e : Env} {nf : Bool} (s : St) (sp : Spec) : Tr e nf false s sp s sp :=
  .frame rfl rfl rfl rfl rfl rfl (AllocSame.refl s)

/-- composition of two steps that do not clear the tables -/
theorem Tr.trans' {e : Env} {nf : Bool} {a b c : St} {sa sb sc : Spec}
    (h1 : Tr e nf false a sa b sb) (h2 : Tr e nf false b sb c sc) : Tr e nf false a sa c sc :=
  Tr.trans h1 h2

theorem Tr.mono {e : Env} {nf : Bool} {b : Bool} {s s' : St} {sp sp' : Spec} (h : Tr e nf b s sp s' sp') :
    Mono s s' := by
  induction h with
  | frame hd hc hl => exact ⟨fun x => by rw [← hc]; exact x, by omega⟩
  | lookup h => exact h.mono
  | @forget s0 _ i n =>
    have := forgetOne_ghost e s0 i n
    exact ⟨fun x => by rw [← this.1]; exact x, by omega⟩
  | hnds _ => exact Mono.refl _
  | setRoot _ _ hc hl => exact ⟨fun x => by rw [← hc]; exact x, by omega⟩
  | clear _ hc hl => exact ⟨fun x => by rw [← hc]; exact x, by omega⟩
  | trans _ _ ih1 ih2 => exact ih1.trans ih2
  | relax _ ih => exact ih

theorem Tr.good {e : Env} {nf : Bool} {b : Bool} {s s' : St} {sp sp' : Spec} (h : Tr e nf b s sp s' sp')
    (g : Good s sp) (ok : OK s') : Good s' sp' := by
  induction h with
  | frame hd hc hl =>
    exact ⟨g.ref.of_data hd, by intro i d hi; rw [hd] at hi; rw [hl]; exact g.bnd i d hi⟩
  | lookup h => exact good_lookup g h ok
  | forget i n => exact good_forget e g i n
  | hnds _ => exact ⟨g.ref, g.bnd⟩
  | setRoot hd hr hc hl =>
    constructor
    · intro i hi
      rw [hd, mget_mput_ne _ _ (fun x => hi x.symm)]
      exact g.ref i hi
    · intro i d' hi
      rw [hd, mget_mput] at hi
      rw [hl]
      split at hi
      · cases hi; omega
      · exact g.bnd i d' hi
  | clear hd _ _ =>
    constructor
    · intro i _; simp [hd, Spec.init]
    · intro i d' hi; simp [hd] at hi
  | trans h1 h2 ih1 ih2 => exact ih2 (ih1 g (h2.mono.ok ok)) ok
  | relax _ ih => exact ih g ok

/-- undoing the reference of an entry that did not reach the client -/
theorem deliver_forget_cancel (sp : Spec) (i : Ino) : (sp.deliver i).forget i 1 = sp := by
  unfold Spec.deliver Spec.forget
  by_cases h : i = ROOT_ID
  · simp [h]
  · simp only [h, if_false]
    cases sp with
    | mk held hnds =>
      simp only [Spec.mk.injEq, and_true]
      funext x
      by_cases e : x = i
      · subst e; simp
      · simp [e]

theorem Tr.lookup_undo {e : Env} {nf : Bool} {s s' : St} {sp : Spec} {ino : Ino} {a : HAns}
    (h : LkEff e s s' (.ok ino)) (hu : LkU e s s' a (.ok ino)) (hf : nf = true → a.NoFh) :
    Tr e nf false s sp (forgetOne e s' ino 1) sp := by
  have h1 : Tr e nf false s sp s' (sp.deliver ino) := Tr.lookup h hu hf
  have h2 := Tr.forget (e := e) (nf := nf) (s := s') (sp := sp.deliver ino) ino 1
  rw [deliver_forget_cancel] at h2
  exact h1.trans' h2

end Fbr.PtRefs
