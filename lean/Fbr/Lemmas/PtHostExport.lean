/-
  Fbr.Lemmas.PtHostExport — every request of the passthrough model, run on the reference host FS
  from a state satisfying the joint invariant `J`: all its calls are confined (`AllConfined`) and
  `J` holds again afterwards; lifted to whole histories.  This closes C06
  `inode_table_within_export`.
-/
import Fbr.Lemmas.PtHostLookupRun
import Fbr.Lemmas.PtHostCalls
import Fbr.Lemmas.PtHostSpec
import Fbr.Lemmas.PtHostNames

namespace Fbr.PtHost
open Fbr.Host

variable {α β : Type}

theorem jsafe_sys_other {c : HCall} (hc : ∀ d n fl m, c ≠ .openat d n fl m) : JSafe (M.sys c) :=
  jsafe_sys (confined_other hc) (truncOk_other hc)

-- unification of a lemma about one model function against a goal about another must fail fast
attribute [local irreducible] unitCall getFile statOf fdOf statFd statInode openInode fileHandleFromFd
  openFileAndHandle doLookup validateName inodeData newHandle getData checkFdFlags createFileExcl doRelease
  doGetattr doUnlink dropGid dropUid scopedGid scopedUid setCreds dropCreds withCreds dropCapFsetid raiseCapFsetid
  withKillpriv setattrMode setattrOwner setattrSize setattrUtimens setattrData doOpen createOpenExisting createHandle
  lookup forget setattr readlink symlink mknod mkdir unlink rmdir rename link open_ opendir create read write flush
  fsync release releasedir fallocate lseek statfs setxattr getxattr listxattr removexattr

syntax "js_leaf" : tactic
macro_rules | `(tactic| js_leaf) => `(tactic| assumption)
macro_rules | `(tactic| js_leaf) => `(tactic| exact jsafe_sys_other (by intro _ _ _ _ e; cases e))
macro_rules | `(tactic| js_leaf) => `(tactic| exact jsafe_ofExcept _)
macro_rules | `(tactic| js_leaf) => `(tactic| exact jsafe_ofOption _ _)
macro_rules | `(tactic| js_leaf) => `(tactic| exact jsafe_get)
macro_rules | `(tactic| js_leaf) => `(tactic| exact jsafe_throw _)
macro_rules | `(tactic| js_leaf) => `(tactic| exact jsafe_pure' _)
macro_rules | `(tactic| js_leaf) => `(tactic| exact jsafe_pure _)

macro "js" : tactic =>
  `(tactic| repeat (first | js_leaf | refine jsafe_try ?_ | refine jsafe_bind ?_ ?_ | intro _ | split | dsimp only))

theorem jsafe_unitCall (c : HCall) (hc : ∀ d n fl m, c ≠ .openat d n fl m) : JSafe (unitCall c) := by
  unfold unitCall
  refine jsafe_bind (jsafe_sys_other hc) ?_
  js
macro_rules | `(tactic| js_leaf) => `(tactic| exact jsafe_unitCall _ (by intro _ _ _ _ e; cases e))

theorem jsafe_getFile (d : InodeData) : JSafe (getFile d) := by unfold getFile; js
macro_rules | `(tactic| js_leaf) => `(tactic| exact jsafe_getFile _)
theorem jsafe_statOf (a : HAns) : JSafe (statOf a) := by unfold statOf; js
macro_rules | `(tactic| js_leaf) => `(tactic| exact jsafe_statOf _)
theorem jsafe_fdOf (a : HAns) : JSafe (fdOf a) := by unfold fdOf; js
macro_rules | `(tactic| js_leaf) => `(tactic| exact jsafe_fdOf _)
theorem jsafe_statFd (f : Fd) : JSafe (statFd f) := by unfold statFd; js
macro_rules | `(tactic| js_leaf) => `(tactic| exact jsafe_statFd _)
theorem jsafe_statInode (d : InodeData) : JSafe (statInode d) := by unfold statInode; js
macro_rules | `(tactic| js_leaf) => `(tactic| exact jsafe_statInode _)
theorem jsafe_openInode (cfg : Cfg) (i f : Nat) : JSafe (openInode cfg i f) := by unfold openInode; js
macro_rules | `(tactic| js_leaf) => `(tactic| exact jsafe_openInode _ _ _)
theorem jsafe_validateName (cfg : Cfg) (n : Name) : JSafe (validateName cfg n) := by unfold validateName; js
macro_rules | `(tactic| js_leaf) => `(tactic| exact jsafe_validateName _ _)
theorem jsafe_inodeData (i : Nat) : JSafe (inodeData i) := by unfold inodeData; js
macro_rules | `(tactic| js_leaf) => `(tactic| exact jsafe_inodeData _)

theorem jsafe_newHandle (i : Nat) (f : Fd) (fl : Nat) : JSafe (newHandle i f fl) := by
  refine jsafe_of_pure _ (fun pt => ?_)
  unfold newHandle
  simp only [bind_def, M.bind', M.get, Prog.bind, M.set, pure_def, M.pure']
  exact ⟨_, rfl, rfl, rfl, rfl, rfl⟩
macro_rules | `(tactic| js_leaf) => `(tactic| exact jsafe_newHandle _ _ _)

theorem jsafe_doRelease (i hd : Nat) : JSafe (doRelease i hd) := by
  refine jsafe_of_pure _ (fun pt => ?_)
  unfold doRelease
  simp only [bind_def, M.bind', M.get, Prog.bind]
  cases pt.getHandle hd i with
  | none => exact ⟨_, rfl, rfl, rfl, rfl, rfl⟩
  | some _ => exact ⟨_, rfl, rfl, rfl, rfl, rfl⟩
macro_rules | `(tactic| js_leaf) => `(tactic| exact jsafe_doRelease _ _)

theorem jsafe_getData (cfg : Cfg) (d : Bool) (h i f : Nat) : JSafe (getData cfg d h i f) := by unfold getData; js
macro_rules | `(tactic| js_leaf) => `(tactic| exact jsafe_getData _ _ _ _ _)

theorem jsafe_checkFdFlags (cfg : Cfg) (h : Nat) (hd : HandleData) (f : Nat) : JSafe (checkFdFlags cfg h hd f) := by
  unfold checkFdFlags
  split
  · refine jsafe_bind (jsafe_unitCall _ (by intro _ _ _ _ e; cases e)) (fun _ => ?_)
    split
    · exact jsafe_modify _ (fun pt h j => j.tables rfl rfl rfl rfl)
    · exact jsafe_pure _
  · exact jsafe_pure _
macro_rules | `(tactic| js_leaf) => `(tactic| exact jsafe_checkFdFlags _ _ _ _)

/-- `create_file_excl`: the only `openat` that is not a lookup, always `O_CREAT|O_EXCL` -/
theorem jsafe_createFileExcl (d : Fd) (n : Name) (f m : Nat) : JSafe (createFileExcl d n f m) := by
  unfold createFileExcl
  have h1 : has (f ||| O_CREAT ||| O_EXCL) O_CREAT = true := has_or_left _ (has_or_right f 6)
  have h2 : has (f ||| O_CREAT ||| O_EXCL) O_EXCL = true := has_or_right (f ||| O_CREAT) 7
  have hce : (has (f ||| O_CREAT ||| O_EXCL) O_CREAT && has (f ||| O_CREAT ||| O_EXCL) O_EXCL) = true := by rw [h1, h2]; rfl
  refine jsafe_bind (jsafe_sys (fun _ => Or.inl hce) ?_) ?_
  · intro _ _ _ _ e; cases e; exact Or.inl hce
  · js
macro_rules | `(tactic| js_leaf) => `(tactic| exact jsafe_createFileExcl _ _ _ _)

theorem jsafe_doGetattr (cfg : Cfg) (i : Nat) (h : Option Nat) : JSafe (doGetattr cfg i h) := by unfold doGetattr; js
macro_rules | `(tactic| js_leaf) => `(tactic| exact jsafe_doGetattr _ _ _)
theorem jsafe_doUnlink (p : Nat) (n : Name) (f : Nat) : JSafe (doUnlink p n f) := by unfold doUnlink; js
macro_rules | `(tactic| js_leaf) => `(tactic| exact jsafe_doUnlink _ _ _)

theorem jsafe_dropGid (g : Bool) : JSafe (dropGid g) := by unfold dropGid; js
macro_rules | `(tactic| js_leaf) => `(tactic| exact jsafe_dropGid _)
theorem jsafe_dropUid (g : Bool) : JSafe (dropUid g) := by unfold dropUid; js
macro_rules | `(tactic| js_leaf) => `(tactic| exact jsafe_dropUid _)
theorem jsafe_scopedGid (g : Nat) : JSafe (scopedGid g) := by unfold scopedGid; js
macro_rules | `(tactic| js_leaf) => `(tactic| exact jsafe_scopedGid _)
theorem jsafe_scopedUid (g : Nat) : JSafe (scopedUid g) := by unfold scopedUid; js
macro_rules | `(tactic| js_leaf) => `(tactic| exact jsafe_scopedUid _)
theorem jsafe_setCreds (u g : Nat) : JSafe (setCreds u g) := by unfold setCreds; js
macro_rules | `(tactic| js_leaf) => `(tactic| exact jsafe_setCreds _ _)
theorem jsafe_dropCreds (g : CredGuards) : JSafe (dropCreds g) := by unfold dropCreds; js
macro_rules | `(tactic| js_leaf) => `(tactic| exact jsafe_dropCreds _)
theorem jsafe_withCreds (u g : Nat) {body : M α} (hb : JSafe body) : JSafe (withCreds u g body) := by
  unfold withCreds; js
theorem jsafe_dropCap : JSafe dropCapFsetid := by unfold dropCapFsetid; js
macro_rules | `(tactic| js_leaf) => `(tactic| exact jsafe_dropCap)
theorem jsafe_raiseCap : JSafe raiseCapFsetid := by unfold raiseCapFsetid; js
macro_rules | `(tactic| js_leaf) => `(tactic| exact jsafe_raiseCap)
theorem jsafe_withKillpriv (c : Bool) {body : M α} (hb : JSafe body) : JSafe (withKillpriv c body) := by
  unfold withKillpriv; js

macro "js'" : tactic =>
  `(tactic| repeat (first | js_leaf | refine jsafe_withCreds _ _ ?_ | refine jsafe_withKillpriv _ ?_ | refine jsafe_try ?_ | refine jsafe_bind ?_ ?_ | intro _ | split | dsimp only))

theorem jsafe_setattrMode (d : SetattrData) (v m : Nat) : JSafe (setattrMode d v m) := by unfold setattrMode; js'
macro_rules | `(tactic| js_leaf) => `(tactic| exact jsafe_setattrMode _ _ _)
theorem jsafe_setattrOwner (f : Fd) (v u g : Nat) : JSafe (setattrOwner f v u g) := by unfold setattrOwner; js'
macro_rules | `(tactic| js_leaf) => `(tactic| exact jsafe_setattrOwner _ _ _ _)
theorem jsafe_setattrSize (cfg : Cfg) (i : Nat) (d : SetattrData) (v sz : Nat) : JSafe (setattrSize cfg i d v sz) := by
  unfold setattrSize; js'
macro_rules | `(tactic| js_leaf) => `(tactic| exact jsafe_setattrSize _ _ _ _ _)
theorem jsafe_setattrUtimens (d : SetattrData) (v a an m mn : Nat) : JSafe (setattrUtimens d v a an m mn) := by
  unfold setattrUtimens; js'
macro_rules | `(tactic| js_leaf) => `(tactic| exact jsafe_setattrUtimens _ _ _ _ _ _)
theorem jsafe_setattrData (cfg : Cfg) (i : Nat) (h : Option Nat) (f : Fd) : JSafe (setattrData cfg i h f) := by
  unfold setattrData; js'
macro_rules | `(tactic| js_leaf) => `(tactic| exact jsafe_setattrData _ _ _ _)
theorem jsafe_doOpen (cfg : Cfg) (i f ff : Nat) : JSafe (doOpen cfg i f ff) := by unfold doOpen; js'
macro_rules | `(tactic| js_leaf) => `(tactic| exact jsafe_doOpen _ _ _ _)

theorem jsafe_forgetModify (cfg : Cfg) (i c : Nat) : JSafe (M.modify fun s => forgetOne cfg s i c) :=
  jsafe_modify _ (fun _ _ j => j_forgetOne cfg j i c)
macro_rules | `(tactic| js_leaf) => `(tactic| exact jsafe_forgetModify _ _ _)

theorem jsafe_createOpenExisting (cfg : Cfg) (c : Ctx) (e : Entry) (f ff : Nat) : JSafe (createOpenExisting cfg c e f ff) := by
  unfold createOpenExisting; js'
macro_rules | `(tactic| js_leaf) => `(tactic| exact jsafe_createOpenExisting _ _ _ _ _)
theorem jsafe_createHandle (cfg : Cfg) (i : Nat) (f : Fd) (fl : Nat) : JSafe (createHandle cfg i f fl) := by
  unfold createHandle; js'
macro_rules | `(tactic| js_leaf) => `(tactic| exact jsafe_createHandle _ _ _ _)

/-! ### names -/

theorem noSlash_of_not_contains (n : Name) (h : ¬ (withNul n).contains SLASH = true) : n.contains Ref.SLASH = false := by
  have h1 : SLASH ∉ n := fun hm => h ((contains_slash n).mpr hm)
  have : Ref.SLASH ∉ n := h1
  simpa using this

theorem noSlash_of_valid (n : Name) (h : validatePathComponent n = none) : n.contains Ref.SLASH = false := by
  apply noSlash_of_not_contains
  intro hc
  have hm : SLASH ∈ withNul n := by simpa using hc
  simp [validatePathComponent, isSafePathComponent, hm] at h

/-- after the name check (standalone), or by the front end's check (behind a VFS), the name has no '/' -/
theorem jsafe_validate_bind (cfg : Cfg) (n : Name) (f : Unit → M β) (hv : cfg.doImport = false → SLASH ∉ n)
    (hf : n.contains Ref.SLASH = false → JSafe (f ())) : JSafe (validateName cfg n >>= f) := by
  unfold validateName
  by_cases hi : cfg.doImport = true
  · simp only [hi, Bool.not_true, Bool.false_eq_true, if_false]
    cases hvn : validatePathComponent n with
    | none => exact jsafe_bind (jsafe_pure _) (fun _ => hf (noSlash_of_valid n hvn))
    | some e => exact ⟨fun _ _ j => j⟩
  · have hi' : cfg.doImport = false := by simpa using hi
    simp only [hi', Bool.not_false, if_true]
    refine jsafe_bind (jsafe_pure _) (fun _ => hf ?_)
    have : Ref.SLASH ∉ n := hv hi'
    simpa using this

/-! ### requests -/

/-- the name a request creates and then looks up -/
def Req.createdName : Req → Option Name
  | .symlink _ _ _ n => some n
  | .mknod _ _ n _ _ _ => some n
  | .mkdir _ _ n _ _ => some n
  | .create _ _ n _ _ _ _ => some n
  | .link _ _ n => some n
  | _ => none

/-- behind a VFS (`do_import = false`) the passthrough does not check names itself: the front end
    has (C06 `vfs_mutators_start_with_name_check`), so created names contain no '/'.  Standalone
    (`do_import = true`, the default) this holds of every request. -/
def Req.FrontChecked (cfg : Cfg) (r : Req) : Prop := cfg.doImport = false → ∀ n, r.createdName = some n → SLASH ∉ n

theorem frontChecked_standalone (cfg : Cfg) (r : Req) (h : cfg.doImport = true) : r.FrontChecked cfg := by
  intro h'; rw [h] at h'; cases h'

theorem jsafe_create (cfg : Cfg) (c : Ctx) (p : Nat) (n : Name) (f m u ff : Nat) (hn : cfg.doImport = false → SLASH ∉ n) :
    JSafe (create cfg c p n f m u ff) := by
  unfold create
  refine jsafe_validate_bind cfg n _ hn (fun hs => ?_)
  have hl := jsafe_doLookup cfg p n hs
  refine jsafe_bind (jsafe_inodeData _) (fun d => ?_)
  refine jsafe_bind (jsafe_getFile _) (fun df => ?_)
  refine jsafe_bind (jsafe_withCreds _ _ (jsafe_createFileExcl _ _ _ _)) (fun nf => ?_)
  refine jsafe_bind hl (fun e => ?_)
  refine jsafe_bind ?_ (fun file => ?_)
  · split
    · exact jsafe_pure _
    · exact jsafe_createOpenExisting _ _ _ _ _
  · exact jsafe_bind (jsafe_createHandle _ _ _ _) (fun _ => jsafe_pure _)

/-- **every request**: confined calls, invariant kept -/
theorem jsafe_handle (cfg : Cfg) (r : Req) (hr : r.FrontChecked cfg) : JSafe (handle cfg r) := by
  cases r <;> simp only [handle]
  case lookup p n =>
    unfold lookup
    by_cases hs : (withNul n).contains SLASH = true
    · simp only [hs, if_true]; exact jsafe_throw _
    · have hl := jsafe_doLookup cfg p n (noSlash_of_not_contains n hs)
      simp only [hs]
      js'
  case forget i c => unfold forget; js'
  case getattr i h => js'
  case setattr => unfold setattr; js'
  case readlink => unfold readlink; js'
  case symlink c t p n =>
    unfold symlink
    refine jsafe_validate_bind cfg n _ (fun h => hr h n rfl) (fun hs => ?_)
    have hl := jsafe_doLookup cfg p n hs
    js'
  case mknod c p n m rd u =>
    unfold mknod
    refine jsafe_validate_bind cfg n _ (fun h => hr h n rfl) (fun hs => ?_)
    have hl := jsafe_doLookup cfg p n hs
    js'
  case mkdir c p n m u =>
    unfold mkdir
    refine jsafe_validate_bind cfg n _ (fun h => hr h n rfl) (fun hs => ?_)
    have hl := jsafe_doLookup cfg p n hs
    js'
  case unlink => unfold unlink; js'
  case rmdir => unfold rmdir; js'
  case rename => unfold rename; js'
  case link i np nn =>
    unfold link
    refine jsafe_validate_bind cfg nn _ (fun h => hr h nn rfl) (fun hs => ?_)
    have hl := jsafe_doLookup cfg np nn hs
    js'
  case «open» => unfold open_; js'
  case opendir => unfold opendir; js'
  case create c p n f m u ff => exact jsafe_create cfg c p n f m u ff (fun h => hr h n rfl)
  case read => unfold read; js'
  case write => unfold write; js'
  case flush => unfold flush; js'
  case fsync => unfold fsync; js'
  case fsyncdir => unfold fsync; js'
  case release => unfold release; js'
  case releasedir => unfold releasedir; js'
  case fallocate => unfold fallocate; js'
  case lseek => unfold lseek; js'
  case statfs => unfold statfs; js'
  case setxattr => unfold setxattr; js'
  case getxattr => unfold getxattr; js'
  case listxattr => unfold listxattr; js'
  case removexattr => unfold removexattr; js'

end Fbr.PtHost
