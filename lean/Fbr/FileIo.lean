/-
  Fbr.FileIo — vectored file I/O of the transport's file adapters (`src/common/file_traits.rs`,
  `src/common/async_file.rs`): `FileReadWriteVolatile for File` (preadv64/pwritev64) and the
  hand-unrolled `AsyncFileReadWriteVolatile for File` (groups of 4, 3, 2, 1 segment operations at
  accumulated offsets).

  The model has the code's shape — one positioned operation per segment at an offset advanced by the
  segment's size, stopping after the first short count — and `Fbr.Thm.C04` proves it equal to the
  trait's contract: "behaves as a single call with the buffers concatenated".
-/
namespace Fbr.FileIo

abbrev Bytes := List Nat

/-- `pread(fd, n, off)` on a regular file -/
def preadAt (file : Bytes) (off n : Nat) : Bytes := (file.drop off).take n

/-- `pwrite(fd, d, off)` on a regular file (a gap behind the end reads as zeros) -/
def pwriteAt (file : Bytes) (off : Nat) (d : Bytes) : Bytes :=
  if d = [] then file
  else
    let f := file ++ List.replicate (off - file.length) 0
    f.take off ++ d ++ f.drop (off + d.length)

/-- segment-by-segment read: `caps` = the free room of each buffer; returns what each buffer
    received and the total count -/
def readVec (file : Bytes) : Nat → List Nat → List Bytes × Nat
  | _, [] => ([], 0)
  | off, c :: rest =>
    let d := preadAt file off c
    if d.length < c then (d :: rest.map fun _ => [], d.length)
    else
      let r := readVec file (off + c) rest
      (d :: r.1, c + r.2)

/-- segment-by-segment write: each buffer's data at the accumulated offset -/
def writeVec : Bytes → Nat → List Bytes → Bytes × Nat
  | file, _, [] => (file, 0)
  | file, off, d :: rest =>
    let r := writeVec (pwriteAt file off d) (off + d.length) rest
    (r.1, d.length + r.2)

end Fbr.FileIo
