/-
  Fbr.PtSealSpec — the specification side of C18: what it means for a request to reach beyond
  the current size of a file (or to set a size), and what it means for the file system to refuse
  a request.  Independent of `seal_size_check`'s code: stated over request, handle table and host.
-/
import Fbr.PtSeal

namespace Fbr.PtSealSpec
open Fbr.PtSeal

/-- host calls that can change the size of an existing file -/
def HostCall.mutating : HostCall → Bool
  | .pwrite .. => true
  | .fallocate .. => true
  | .ftruncate .. => true
  | .reopen _ fl => fl.trunc
  | _ => false

/-- host calls made only to evaluate the seal check -/
def HostCall.probe : HostCall → Bool
  | .fstat _ => true
  | .getfl _ => true
  | _ => false

/-- the request was turned down before any size-affecting host call -/
def Refused (o : Out) : Prop := (∃ e, o.ret = .error e) ∧ o.calls.all (fun c => !HostCall.mutating c) = true

/-- is the descriptor a WRITE works on in append mode once `check_fd_flags` has applied the
    request's flag word? -/
def appendAfter (hd : Hnd) (fl : Flags) : Bool := if hd.stored ≠ fl then fl.append else hd.fd.append

/-- the descriptor behind `(file, h)`: the handle's, or a fresh `O_RDWR` one in no_open mode -/
def resolve (cfg : Cfg) (st : St) (file h : Nat) : Option Hnd :=
  if cfg.noOpen then
    (if (st.host.size file).isSome then some { file := file, fd := fdOf (openFlags cfg rdwr), stored := rdwr } else none)
  else match st.handles h with
    | some hd => if hd.file = file then some hd else none
    | none => none

/-- the request reaches beyond the current end of the file it addresses, or sets a size -/
def Beyond (cfg : Cfg) (st : St) : Req → Prop
  | .opn _ fl => fl.trunc = true
  | .create file fl => (st.host.size file).isSome = true ∧ fl.excl = false ∧ fl.trunc = true
  | .write file h fl len off =>
    ∃ hd sz, resolve cfg st file h = some hd ∧ st.host.size file = some sz ∧
      (if appendAfter hd fl then sz else off) + len > sz
  | .setattr _ _ setSize _ _ => setSize = true
  | .fallocate file _ mode off len =>
    ∃ sz, st.host.size file = some sz ∧
      (¬ (fallocOp mode = 0 ∨ fallocOp mode = FL_PUNCH_HOLE ∨ fallocOp mode = FL_ZERO) ∨ off + len > sz)
  | .release _ _ => False

/-- the request names things that exist, so that it gets as far as the seal check -/
def Resolves (cfg : Cfg) (st : St) : Req → Prop
  | .opn file _ => cfg.noOpen = false ∧ (st.host.size file).isSome = true
  | .create file fl => ¬ ((st.host.size file).isSome = true ∧ fl.excl = true)
  | .write file h _ _ _ => (resolve cfg st file h).isSome = true ∧ (st.host.size file).isSome = true
  | .setattr file h _ _ _ =>
    (st.host.size file).isSome = true ∧
      (cfg.noOpen = true ∨ h = none ∨ ∃ hh, h = some hh ∧ (resolve cfg st file hh).isSome = true)
  | .fallocate file h _ _ _ => (resolve cfg st file h).isSome = true ∧ (st.host.size file).isSome = true
  | .release file h => cfg.noOpen = false ∧ (resolve cfg st file h).isSome = true

/-- every file is smaller than 2^63 bytes (`loff_t`) -/
def HostOk (H : Host) : Prop := ∀ f n, H.size f = some n → n < I64

end Fbr.PtSealSpec
