/-
  Fbr.HostRef — the reference host file system: an executable, total model of the system calls of
  `Fbr.Host.HCall` over a finite map of inodes.

  * inodes: dir | reg | lnk | fifo | chr | blk | sock, with permission bits, owner, content /
    link target, directory entries (hard links = several entries with one inode id), ".." as the
    `parent` field of directories, link count, xattrs, explicit times;
  * an export directory `exportRoot` inside a larger tree rooted at `hostRoot`; `sent` marks the
    inodes that were outside the export when the file system was imported (the sentinel tree);
  * open file descriptions (`fds`), file handles, the credentials of the serving thread.

  `Ref.ops : HostOps State` packages it; `Fbr.Lemmas.HostRef` proves `HostLaws Ref.ops`.
  Errno precedence follows Linux for the cases the passthrough can produce; where it is a
  file-system detail (directory sizes, st_blocks, atime) nothing is modelled.
-/
import Fbr.Host

namespace Fbr.Host.Ref

structure FdEnt where
  obj : Obj
  flags : Nat
  pos : Nat := 0
  deriving Repr, DecidableEq, Inhabited

structure State where
  nodes : Obj → Option Node
  next : Obj
  hostRoot : Obj
  exportRoot : Obj
  sent : Obj → Bool
  fds : Fd → Option FdEnt
  nextFd : Fd
  /-- file handle id ↦ inode; an inode has at most one handle id -/
  handles : Nat → Option Obj
  nextHandle : Nat
  creds : Creds
  /-- supplementary groups of the process (never changed by the library) -/
  supp : List Nat := [0]

def S_ISUID := 2048
def S_ISGID := 1024
def S_ISVTX := 512
def NAME_MAX := 255
def ENXIO := 6
def EBUSY := 16
def ESTALE := 116
def ENOTSUP := 95
def EFBIG := 27

def setNode (s : State) (o : Obj) (n : Node) : State :=
  { s with nodes := fun x => if x = o then some n else s.nodes x }

def modNode (s : State) (o : Obj) (f : Node → Node) : State :=
  match s.nodes o with
  | some n => setNode s o (f n)
  | none => s

def fdObj (s : State) (f : Fd) : Option Obj := (s.fds f).map (·.obj)

def dot : Name := [46]
def dotdot : Name := [46, 46]
def SLASH : UInt8 := 47

/-- one path component below directory `d` (no symlink following) -/
def lookup1 (s : State) (d : Obj) (name : Name) : Except Nat Obj :=
  match s.nodes d with
  | none => .error ENOENT
  | some n =>
    if n.kind != .dir then .error ENOTDIR
    else if name.length > NAME_MAX then .error ENAMETOOLONG
    else if name == dot then .ok d
    else if name == dotdot then .ok (if d == s.hostRoot then d else n.parent)
    else if n.nlink == 0 then .error ENOENT
    else match n.entries.lookup name with
      | some c => .ok c
      | none => .error ENOENT

/-- split a path at '/' (empty components dropped) -/
def splitPath (p : Name) : List Name :=
  (p.splitOn SLASH).filter (· != [])

/-- general path resolution with symlink following (fuel-bounded; ELOOP when exhausted).
    `followLast = false` is `O_NOFOLLOW` / `AT_SYMLINK_NOFOLLOW`. -/
def walk : Nat → State → Obj → List Name → Bool → Except Nat Obj
  | 0, _, _, _, _ => .error ELOOP
  | _ + 1, _, cur, [], _ => .ok cur
  | fuel + 1, s, cur, c :: rest, followLast =>
    match lookup1 s cur c with
    | .error e => .error e
    | .ok o =>
      match s.nodes o with
      | none => .error ENOENT
      | some n =>
        if n.kind == .lnk && (!rest.isEmpty || followLast) then
          let start := if n.data.head? == some SLASH then s.hostRoot else cur
          walk fuel s start (splitPath n.data ++ rest) followLast
        else walk fuel s o rest followLast

/-- `dirfd`-relative resolution of `path` -/
def resolve (s : State) (d : Obj) (path : Name) (followLast : Bool) : Except Nat Obj :=
  if path.isEmpty then .error ENOENT
  else if !path.contains SLASH then walk 40 s d [path] followLast     -- a single component
  else
    let start := if path.head? == some SLASH then s.hostRoot else d
    let comps := splitPath path
    let trailing := path.getLast? == some SLASH
    match walk 40 s start comps (followLast || trailing) with
    | .error e => .error e
    | .ok o =>
      if trailing then
        match s.nodes o with
        | some n => if n.kind == .dir then .ok o else .error ENOTDIR
        | none => .error ENOENT
      else .ok o

def statOf (o : Obj) (n : Node) : Stat :=
  { obj := o, mode := n.kind.ifmt ||| n.perm, uid := n.uid, gid := n.gid,
    size := if n.kind == .dir then 0 else n.data.length,
    nlink := n.nlink, rdev := n.rdev, atime := n.atime, mtime := n.mtime }

def inGroup (s : State) (g : Nat) : Bool := s.creds.egid == g || s.supp.contains g

/-- permission class bits (rwx) of the calling thread on a node -/
def classBits (s : State) (n : Node) : Nat :=
  if s.creds.euid == n.uid then (n.perm / 64) % 8
  else if inGroup s n.gid then (n.perm / 8) % 8
  else n.perm % 8

def mayWriteDir (s : State) (n : Node) : Bool := s.creds.euid == 0 || (classBits s n) &&& 3 == 3
def mayRead (s : State) (n : Node) : Bool := s.creds.euid == 0 || (classBits s n) &&& 4 != 0
def mayWrite (s : State) (n : Node) : Bool := s.creds.euid == 0 || (classBits s n) &&& 2 != 0

def newFd (s : State) (o : Obj) (flags : Nat) : HAns × State :=
  (.fd s.nextFd o, { s with fds := fun f => if f = s.nextFd then some { obj := o, flags := flags } else s.fds f,
                            nextFd := s.nextFd + 1 })

/-- a new inode in directory `d` under `name` (the caller checked that the name is free) -/
def createIn (s : State) (d : Obj) (dn : Node) (name : Name) (kind : Kind) (perm rdev : Nat) (data : List UInt8) : State × Obj :=
  let sgid := has dn.perm S_ISGID
  let perm := if kind == .dir && sgid then perm ||| S_ISGID else perm
  let n : Node := { kind := kind, perm := perm, uid := s.creds.euid, gid := if sgid then dn.gid else s.creds.egid,
                    data := data, parent := d, nlink := if kind == .dir then 2 else 1, rdev := rdev }
  let o := s.next
  let s1 := setNode { s with next := s.next + 1 } o n
  let dn' := { dn with entries := (name, o) :: dn.entries, nlink := if kind == .dir then dn.nlink + 1 else dn.nlink }
  (setNode s1 d dn', o)

/-- the checks common to mkdirat / mknodat / symlinkat / openat(O_CREAT|O_EXCL): parent directory,
    single plain component, name free, write permission -/
def createCheck (s : State) (d : Obj) (name : Name) : Except Nat Node :=
  match s.nodes d with
  | none => .error ENOENT
  | some dn =>
    if dn.kind != .dir then .error ENOTDIR
    else if name.isEmpty then .error ENOENT
    else if name.contains SLASH then .error ENOENT      -- (multi-component creation is not modelled)
    else if name.length > NAME_MAX then .error ENAMETOOLONG
    else if name == dot || name == dotdot then .error EEXIST
    else if dn.nlink == 0 then .error ENOENT
    else if (dn.entries.lookup name).isSome then .error EEXIST
    else if !mayWriteDir s dn then .error EACCES
    else .ok dn

/-- the error of opening an inode for I/O, if any -/
def openErr (s : State) (n : Node) (flags : Nat) : Option Nat :=
  let acc := flags &&& O_ACCMODE
  if n.kind == .lnk then some ELOOP
  else if has flags O_DIRECTORY && n.kind != .dir then some ENOTDIR
  else if n.kind == .dir && (acc != O_RDONLY || has flags O_CREAT) then some EISDIR
  else if (acc == O_RDONLY || acc == O_RDWR) && !mayRead s n then some EACCES
  else if (acc == O_WRONLY || acc == O_RDWR || has flags O_TRUNC) && !mayWrite s n then some EACCES
  else none

/-- open an inode for I/O (not `O_PATH`); `O_TRUNC` empties a regular file -/
def openObj (s : State) (o : Obj) (flags : Nat) : HAns × State :=
  match s.nodes o with
  | none => (.err ENOENT, s)
  | some n =>
    match openErr s n flags with
    | some e => (.err e, s)
    | none =>
      if has flags O_TRUNC && n.kind == .reg then newFd (setNode s o { n with data := [], mtime := none }) o flags
      else newFd s o flags

def removeEntry (n : Node) (name : Name) : Node := { n with entries := n.entries.filter (·.1 != name) }

/-- is `a` equal to or below directory `anc` (following `parent`, fuel-bounded) -/
def isBelow : Nat → State → Obj → Obj → Bool
  | 0, _, _, _ => false
  | fuel + 1, s, a, anc =>
    if a == anc then true
    else match s.nodes a with
      | some n => if a == s.hostRoot || n.parent == a then false else isBelow fuel s n.parent anc
      | none => false

def timeArg (sec nsec : Nat) (old : Option Nat) : Option Nat :=
  if nsec == UTIME_NOW then none else if nsec == UTIME_OMIT then old else some sec

def setTimes (s : State) (o : Obj) (as ans ms mns : Nat) : HAns × State :=
  match s.nodes o with
  | none => (.err ENOENT, s)
  | some n => (.ok, setNode s o { n with atime := timeArg as ans n.atime, mtime := timeArg ms mns n.mtime })

def chmodObj (s : State) (o : Obj) (mode : Nat) : HAns × State :=
  match s.nodes o with
  | none => (.err ENOENT, s)
  | some n =>
    if n.kind == .lnk then (.err EOPNOTSUPP, s)
    else (.ok, setNode s o { n with perm := mode &&& 4095 })

def xattrAllowed (n : Node) (name : List UInt8) : Option Nat :=
  let user : List UInt8 := [117, 115, 101, 114, 46]
  let trusted : List UInt8 := [116, 114, 117, 115, 116, 101, 100, 46]
  if user.isPrefixOf name then (if n.kind == .reg || n.kind == .dir then none else some EPERM)
  else if trusted.isPrefixOf name then none
  else some EOPNOTSUPP

def pad (l : List UInt8) (n : Nat) : List UInt8 := l ++ List.replicate (n - l.length) 0

def plainName (n : Name) : Bool :=
  !n.isEmpty && !n.contains SLASH && n != dot && n != dotdot && n.length ≤ NAME_MAX

/-- the checks of `renameat2`; `ok none` = source and target are the same object (nothing to do),
    `ok (some (c, cn))` = move entry `oname` ↦ `c` -/
def renameCheck (s : State) (nd : Obj) (odn ndn : Node) (oname nname : Name) (flags : Nat) : Except Nat (Option (Obj × Node)) :=
  if flags > 3 || flags == 3 then .error EINVAL
  else if odn.kind != .dir || ndn.kind != .dir then .error ENOTDIR
  else if !plainName oname || !plainName nname then .error (if oname.isEmpty || nname.isEmpty then ENOENT else EBUSY)
  else match odn.entries.lookup oname with
    | none => .error ENOENT
    | some c =>
      match s.nodes c with
      | none => .error ENOENT
      | some cn =>
        let tgt := ndn.entries.lookup nname
        if flags == RENAME_NOREPLACE && tgt.isSome then .error EEXIST
        else if flags == RENAME_EXCHANGE then .error (if tgt.isNone then ENOENT else EINVAL)  -- (exchange itself not modelled)
        else if ndn.nlink == 0 then .error ENOENT
        else if tgt == some c then .ok none
        else if cn.kind == .dir && isBelow 64 s nd c then .error EINVAL
        else
          match tgt.bind s.nodes with
          | some tn =>
            if cn.kind == .dir && tn.kind != .dir then .error ENOTDIR
            else if cn.kind != .dir && tn.kind == .dir then .error EISDIR
            else if tn.kind == .dir && !tn.entries.isEmpty then .error ENOTEMPTY
            else .ok (some (c, cn))
          | none => .ok (some (c, cn))

/-- the effect of a successful rename: an existing target loses a link, the entry moves, a moved
    directory gets its new parent -/
def renameApply (s : State) (od nd : Obj) (oname nname : Name) (c : Obj) (cn : Node) (tgt : Option Obj) : State :=
  let s1 := match tgt with
    | some t => modNode s t (fun tn => { tn with nlink := if tn.kind == .dir then 0 else tn.nlink - 1 })
    | none => s
  let s2 := modNode s1 od (fun n => removeEntry n oname)
  let s3 := modNode s2 nd (fun n => { removeEntry n nname with entries := (nname, c) :: (removeEntry n nname).entries })
  if cn.kind == .dir then modNode s3 c (fun n => { n with parent := nd }) else s3

/-- the system calls (credentials are restored by `step` for calls that are not credential calls) -/
def stepCore (s : State) : HCall → HAns × State
  | .openat dfd name flags mode =>
    match fdObj s dfd with
    | none => (.err EBADF, s)
    | some d =>
      if has flags O_CREAT && has flags O_EXCL then
        match createCheck s d name with
        | .error e => (.err e, s)
        | .ok dn =>
          let (s1, o) := createIn s d dn name .reg (mode &&& 4095) 0 []
          newFd s1 o flags
      else
        match resolve s d name (!(has flags O_NOFOLLOW)) with
        | .error e => (.err e, s)
        | .ok o => if has flags O_PATH then newFd s o flags else openObj s o flags
  | .reopen f flags _ =>
    match s.fds f with
    | none => (.err ENOENT, s)
    | some e => if has flags O_PATH then newFd s e.obj flags else openObj s e.obj flags
  | .openByHandle h flags _ =>
    if s.creds.euid != 0 then (.err EPERM, s) else
    match s.handles h with
    | none => (.err ESTALE, s)
    | some o =>
      match s.nodes o with
      | none => (.err ESTALE, s)
      | some n =>
        if n.nlink == 0 then (.err ESTALE, s)
        else if has flags O_PATH then newFd s o flags else openObj s o flags
  | .nameToHandle f _ size =>
    match fdObj s f with
    | none => (.err EBADF, s)
    | some o =>
      if size == 0 then (.err EOVERFLOW, s)
      else
        -- an inode keeps its handle
        match (List.range s.nextHandle).find? (fun h => s.handles h == some o) with
        | some h => (.handle h, s)
        | none => (.handle s.nextHandle,
                   { s with handles := fun h => if h = s.nextHandle then some o else s.handles h,
                            nextHandle := s.nextHandle + 1 })
  | .statx f name _ _ | .fstatat f name _ =>
    match fdObj s f with
    | none => (.err EBADF, s)
    | some o =>
      match (if name.isEmpty then .ok o else resolve s o name false) with
      | .error e => (.err e, s)
      | .ok t => match s.nodes t with
        | some n => (.st (statOf t n), s)
        | none => (.err ENOENT, s)
  | .mkdirat dfd name mode =>
    match fdObj s dfd with
    | none => (.err EBADF, s)
    | some d =>
      match createCheck s d name with
      | .error e => (.err e, s)
      | .ok dn => (.ok, (createIn s d dn name .dir (mode &&& 1023) 0 []).1)
  | .mknodat dfd name mode rdev =>
    match fdObj s dfd with
    | none => (.err EBADF, s)
    | some d =>
      match kindOfMode mode with
      | none => (.err EINVAL, s)
      | some k =>
        if (k == .chr || k == .blk) && s.creds.euid != 0 then (.err EPERM, s) else
        match createCheck s d name with
        | .error e => (.err e, s)
        | .ok dn => (.ok, (createIn s d dn name k (mode &&& 4095) (if k == .chr || k == .blk then rdev else 0) []).1)
  | .symlinkat target dfd name =>
    match fdObj s dfd with
    | none => (.err EBADF, s)
    | some d =>
      if target.isEmpty then (.err ENOENT, s) else
      match createCheck s d name with
      | .error e => (.err e, s)
      | .ok dn => (.ok, (createIn s d dn name .lnk 511 0 target).1)
  | .linkat f _ ndfd name _ =>
    match fdObj s f, fdObj s ndfd with
    | some o, some d =>
      match s.nodes o with
      | none => (.err ENOENT, s)
      | some n =>
        if n.kind == .dir then (.err EPERM, s)
        else match createCheck s d name with
          | .error e => (.err e, s)
          | .ok dn =>
            if n.nlink == 0 then (.err ENOENT, s) else
            let s1 := setNode s o { n with nlink := n.nlink + 1 }
            (.ok, setNode s1 d { dn with entries := (name, o) :: dn.entries })
    | _, _ => (.err EBADF, s)
  | .unlinkat dfd name flags =>
    match fdObj s dfd with
    | none => (.err EBADF, s)
    | some d =>
      match s.nodes d with
      | none => (.err ENOENT, s)
      | some dn =>
        if dn.kind != .dir then (.err ENOTDIR, s)
        else if name.isEmpty then (.err ENOENT, s)
        else if name.contains SLASH then (.err ENOENT, s)
        else if name.length > NAME_MAX then (.err ENAMETOOLONG, s)
        else if name == dot then (.err (if has flags AT_REMOVEDIR then EINVAL else EISDIR), s)
        else if name == dotdot then (.err (if has flags AT_REMOVEDIR then ENOTEMPTY else EISDIR), s)
        else match dn.entries.lookup name with
          | none => (.err ENOENT, s)
          | some c =>
            match s.nodes c with
            | none => (.err ENOENT, s)
            | some cn =>
              if has flags AT_REMOVEDIR then
                if cn.kind != .dir then (.err ENOTDIR, s)
                else if !cn.entries.isEmpty then (.err ENOTEMPTY, s)
                else
                  let s1 := setNode s c { cn with nlink := 0 }
                  (.ok, setNode s1 d { removeEntry dn name with nlink := dn.nlink - 1 })
              else
                if cn.kind == .dir then (.err EISDIR, s)
                else
                  let s1 := setNode s c { cn with nlink := cn.nlink - 1 }
                  (.ok, setNode s1 d (removeEntry dn name))
  | .renameat2 odfd oname ndfd nname flags =>
    match fdObj s odfd, fdObj s ndfd with
    | some od, some nd =>
      match s.nodes od, s.nodes nd with
      | some odn, some ndn =>
        match renameCheck s nd odn ndn oname nname flags with
        | .error e => (.err e, s)
        | .ok none => (.ok, s)
        | .ok (some (c, cn)) => (.ok, renameApply s od nd oname nname c cn (ndn.entries.lookup nname))
      | _, _ => (.err ENOENT, s)
    | _, _ => (.err EBADF, s)
  | .readlinkat f _ bufsz =>
    match fdObj s f with
    | none => (.err EBADF, s)
    | some o => match s.nodes o with
      | some n => if n.kind == .lnk then (.bytes (n.data.take bufsz), s) else (.err ENOENT, s)
      | none => (.err ENOENT, s)
  | .fchmod f mode =>
    match s.fds f with
    | none => (.err EBADF, s)
    | some e => if has e.flags O_PATH then (.err EBADF, s) else chmodObj s e.obj mode
  | .fchmodatProc f mode _ =>
    match fdObj s f with
    | none => (.err ENOENT, s)
    | some o => chmodObj s o mode
  | .fchownat f _ uid gid _ =>
    match fdObj s f with
    | none => (.err EBADF, s)
    | some o => match s.nodes o with
      | none => (.err ENOENT, s)
      | some n =>
        let n1 := { n with uid := if uid == 4294967295 then n.uid else uid, gid := if gid == 4294967295 then n.gid else gid }
        -- chown of a non-directory drops set-uid, and set-gid when group-executable
        let n2 := if n.kind == .dir || n.kind == .lnk then n1
                  else { n1 with perm := clr (if has n.perm 8 then clr n.perm S_ISGID else n.perm) S_ISUID }
        (.ok, setNode s o n2)
  | .ftruncate f size =>
    match s.fds f with
    | none => (.err EBADF, s)
    | some e =>
      if has e.flags O_PATH then (.err EBADF, s) else
      match s.nodes e.obj with
      | none => (.err ENOENT, s)
      | some n =>
        if n.kind != .reg || (e.flags &&& O_ACCMODE) == O_RDONLY then (.err EINVAL, s)
        else (.ok, setNode s e.obj { n with data := pad (n.data.take size) size, mtime := none })
  | .futimens f as ans ms mns =>
    match s.fds f with
    | none => (.err EBADF, s)
    | some e => if has e.flags O_PATH then (.err EBADF, s) else setTimes s e.obj as ans ms mns
  | .utimensatProc f as ans ms mns _ =>
    match fdObj s f with
    | none => (.err ENOENT, s)
    | some o => setTimes s o as ans ms mns
  | .fallocate f mode off len =>
    match s.fds f with
    | none => (.err EBADF, s)
    | some e =>
      match s.nodes e.obj with
      | none => (.err ENOENT, s)
      | some n =>
        if has e.flags O_PATH || (e.flags &&& O_ACCMODE) == O_RDONLY then (.err EBADF, s)
        else if n.kind != .reg then (.err (if n.kind == .dir then EISDIR else ENXIO), s)
        else if len == 0 then (.err EINVAL, s)
        else if mode == 0 then (.ok, setNode s e.obj { n with data := pad n.data (off + len) })
        else if mode == 1 then (.ok, s)
        else if mode == 3 then
          (.ok, setNode s e.obj { n with data := (n.data.take off ++ List.replicate (min len (n.data.length - off)) 0 ++ n.data.drop (off + len)) })
        else (.err EOPNOTSUPP, s)
  | .lseek f off whence =>
    match s.fds f with
    | none => (.err EBADF, s)
    | some e =>
      match s.nodes e.obj with
      | none => (.err ENOENT, s)
      | some n =>
        let size := n.data.length
        let r : Except Nat Nat :=
          if whence == 0 then .ok off
          else if whence == 1 then .ok (e.pos + off)
          else if whence == 2 then .ok (size + off)
          else if whence == 3 then (if off < size then .ok off else .error ENXIO)
          else if whence == 4 then (if off < size then .ok size else .error ENXIO)
          else .error EINVAL
        match r with
        | .error er => (.err er, s)
        | .ok p => (.n p, { s with fds := fun x => if x = f then some { e with pos := p } else s.fds x })
  | .preadv f len off =>
    match s.fds f with
    | none => (.err EBADF, s)
    | some e =>
      match s.nodes e.obj with
      | none => (.err ENOENT, s)
      | some n =>
        if has e.flags O_PATH || (e.flags &&& O_ACCMODE) == O_WRONLY then (.err EBADF, s)
        else if len == 0 then (.bytes [], s)
        else if n.kind == .dir then (.err EISDIR, s)
        else (.bytes ((n.data.drop off).take len), s)
  | .pwritev f data off =>
    match s.fds f with
    | none => (.err EBADF, s)
    | some e =>
      match s.nodes e.obj with
      | none => (.err ENOENT, s)
      | some n =>
        if has e.flags O_PATH || (e.flags &&& O_ACCMODE) == O_RDONLY then (.err EBADF, s)
        else if data.isEmpty then (.n 0, s)
        else
          let at_ := if has e.flags O_APPEND then n.data.length else off
          let d := pad n.data at_
          (.n data.length, setNode s e.obj { n with data := d.take at_ ++ data ++ d.drop (at_ + data.length), mtime := none })
  | .fstatvfs f => match fdObj s f with
    | none => (.err EBADF, s)
    | some _ => (.vfs 255 4096, s)
  | .setxattr f name value flags =>
    match fdObj s f with
    | none => (.err ENOENT, s)
    | some o => match s.nodes o with
      | none => (.err ENOENT, s)
      | some n =>
        match xattrAllowed n name with
        | some e => (.err e, s)
        | none =>
          let ex := (n.xattrs.lookup name).isSome
          if flags == 1 && ex then (.err EEXIST, s)
          else if flags == 2 && !ex then (.err ENODATA, s)
          else (.ok, setNode s o { n with xattrs := (name, value) :: n.xattrs.filter (·.1 != name) })
  | .getxattr f name size =>
    match fdObj s f with
    | none => (.err ENOENT, s)
    | some o => match s.nodes o with
      | none => (.err ENOENT, s)
      | some n =>
        match xattrAllowed n name with
        | some e => (.err (if e == EPERM then ENODATA else e), s)
        | none =>
          match n.xattrs.lookup name with
          | none => (.err ENODATA, s)
          | some v => if size == 0 then (.n v.length, s) else if size < v.length then (.err ERANGE, s) else (.bytes v, s)
  | .listxattr f size =>
    match fdObj s f with
    | none => (.err ENOENT, s)
    | some o => match s.nodes o with
      | none => (.err ENOENT, s)
      | some n =>
        let l : List UInt8 := n.xattrs.reverse.foldr (fun x acc => x.1 ++ [0] ++ acc) []
        if size == 0 then (.n l.length, s) else if size < l.length then (.err ERANGE, s) else (.bytes l, s)
  | .removexattr f name =>
    match fdObj s f with
    | none => (.err ENOENT, s)
    | some o => match s.nodes o with
      | none => (.err ENOENT, s)
      | some n =>
        match xattrAllowed n name with
        | some e => (.err (if e == EPERM then ENODATA else e), s)
        | none =>
          if (n.xattrs.lookup name).isSome then (.ok, setNode s o { n with xattrs := n.xattrs.filter (·.1 != name) })
          else (.err ENODATA, s)
  | .fsync f | .fdatasync f => match s.fds f with
    | none => (.err EBADF, s)
    | some e => if has e.flags O_PATH then (.err EBADF, s) else (.ok, s)
  | .setfl f flags => match s.fds f with
    | none => (.err EBADF, s)
    | some e =>
      let keep := O_APPEND ||| O_NONBLOCK ||| O_DIRECT ||| O_NOATIME
      (.ok, { s with fds := fun x => if x = f then some { e with flags := clr e.flags keep ||| (flags &&& keep) } else s.fds x })
  | .setresgid g =>
    -- real gid is 0: an unprivileged thread may still return to gid 0
    if s.creds.euid == 0 || g == 0 || g == s.creds.egid then (.ok, { s with creds := { s.creds with egid := g } })
    else (.err EPERM, s)
  | .setresuid u =>
    if s.creds.euid == 0 || u == 0 || u == s.creds.euid then (.ok, { s with creds := s.creds.afterSetuid u })
    else (.err EPERM, s)
  | .capget => (.caps s.creds.effFsetid, s)
  | .capset b =>
    if b && !s.creds.permFsetid then (.err EPERM, s)
    else (.ok, { s with creds := { s.creds with effFsetid := b } })

/-- one system call.  Calls other than setresuid / setresgid / capset keep the credentials. -/
def step (s : State) (c : HCall) : HAns × State :=
  let r := stepCore s c
  if c.isCred then r else (r.1, { r.2 with creds := s.creds })

/-- what the theorems may observe of an inode -/
def view (s : State) (o : Obj) : Option Node := s.nodes o

end Fbr.Host.Ref

namespace Fbr.Host.Ref

/-- the reference FS as a host -/
def ops (sent : Obj → Bool) (exportRoot : Obj) : HostOps State where
  step := step
  creds := fun s => s.creds
  fdObj := fdObj
  view := view
  sentinel := sent
  exportRoot := exportRoot

end Fbr.Host.Ref
