/-
  Fbr.Persist — model of `Vfs::save_to_bytes` / `restore_from_bytes` / `restore_mount`
  (src/api/vfs/mod.rs `mod persist`) and `PseudoFs::save_to_bytes` / `restore_from_state`
  (src/api/pseudo_fs.rs `mod persist`), on the record level: the byte format belongs to the
  `versionize` / `dbs-snapshot` crates and is trusted (it is exercised by the correspondence run).

  `restore` models restoring into a *fresh* instance (`Vfs::new(..)`, nothing mounted), which is
  the documented use and the only one the harness performs.  Snapshots are the ones `save`
  produces: pseudo inode numbers are distinct and the root is not listed.
-/
import Fbr.Vfs

namespace Fbr.Persist
open Fbr.Vfs

/-- `PseudoInodeState` -/
structure PInodeState where
  ino : Nat
  parent : Nat
  name : Name
  deriving Repr, DecidableEq, Inhabited

/-- `VfsState` (with `PseudoFsState` inlined) -/
structure Snapshot where
  opts : Opts
  nextInode : Nat
  /-- every pseudo inode but the root -/
  inodes : List PInodeState
  nextSuper : Nat
  /-- one entry per slot index (format version ≥ 2) -/
  mountMaps : List (Option Map)
  deriving Repr, DecidableEq, Inhabited

/-- `save_to_bytes` -/
def save (s : State) : Snapshot :=
  { opts := s.opts,
    nextInode := s.pseudo.nextInode,
    inodes := (s.pseudo.nodes.filter (fun n => n.ino != ROOT_ID)).map fun n => { ino := n.ino, parent := n.parent, name := n.name },
    nextSuper := s.nextSuper,
    mountMaps := (List.range MAX_VFS_INDEX).map s.mountMaps }

/-- what a format-version-1 writer stored of the same state: no per-mount mappings -/
def toV1 (sn : Snapshot) : Snapshot := { sn with mountMaps := [] }

/-- reading a snapshot: version 1 has no `mount_id_mappings`, `default_mount_id_mappings` fills
    in `vec![None; 256]` -/
def loadMaps (sn : Snapshot) (v1 : Bool) : List (Option Map) :=
  if v1 then List.replicate MAX_VFS_INDEX none else sn.mountMaps

def insertByIno (x : PInodeState) : List PInodeState → List PInodeState
  | [] => [x]
  | y :: rest => if x.ino < y.ino then x :: y :: rest else y :: insertByIno x rest

/-- `state_inodes.sort_by(|a, b| a.ino.cmp(&b.ino))` (stable) -/
def sortByIno (l : List PInodeState) : List PInodeState := l.foldr insertByIno []

def rootNode : PNode := { ino := 1, parent := 1, name := [SLASH], children := [] }

/-- the connect loop of `restore_from_state`: `parent.insert_child(inode)` in ascending inode
    order; `none` = "invalid parent inode" -/
def connect : List PNode → List PInodeState → Option (List PNode)
  | nodes, [] => some nodes
  | nodes, st :: rest =>
    if nodes.any (fun n => n.ino == st.parent) then
      connect (nodes.map fun n => if n.ino == st.parent then { n with children := n.children ++ [(st.ino, st.name)] } else n) rest
    else none

/-- `PseudoFs::restore_from_state` on a fresh pseudo fs -/
def restorePseudo (nextInode : Nat) (inodes : List PInodeState) : Option Pseudo :=
  let sorted := sortByIno inodes
  let nodes0 := rootNode :: sorted.map fun st => { ino := st.ino, parent := st.parent, name := st.name, children := [] }
  (connect nodes0 sorted).map fun nodes => { nextInode := nextInode, nodes := nodes }

/-- `Vfs::restore_from_bytes` into a fresh instance whose constructor saw `globalMap` -/
def restore (globalMap : Option Map) (rmRoot : Bool) (sn : Snapshot) (v1 : Bool) : Option State :=
  (restorePseudo sn.nextInode sn.inodes).map fun p =>
    { supers := fun _ => none, mnts := fun _ => none, pseudo := p, nextSuper := sn.nextSuper,
      mountMaps := fun i => ((loadMaps sn v1)[i]?).join,
      globalMap := globalMap, opts := sn.opts,
      initialized := decide (sn.opts.inOpts ≠ 0), rmRoot := rmRoot }

/-- the mounts the embedding re-attaches: every mount point whose slot holds a backend, in
    ascending order of the pseudo inode of the mount path -/
def liveMounts (s : State) : List (Mnt × Bk) :=
  (List.range s.pseudo.nextInode).filterMap fun pino =>
    (s.mnts pino).bind fun m => (s.supers m.idx).map fun b => (m, b)

/-- `restore_mount` of each recorded (backend, index, path); stops at a panic -/
def reattach : State → List (Mnt × Bk) → State × List Call × Option Res
  | s, [] => (s, [], none)
  | s, (m, b) :: rest =>
    match s.restoreMount b m.idx m.path with
    | (s1, .unit, calls) =>
      let (s2, cs, bad) := reattach s1 rest
      (s2, calls ++ cs, bad)
    | (s1, .panic, calls) => (s1, calls, some .panic)
    | (s1, r, calls) =>
      let (s2, cs, bad) := reattach s1 rest
      (s2, calls ++ cs, some (bad.getD r))

/-- save, restore into a fresh instance, re-attach -/
def saveRestore (s : State) (mode : RMode) : State × Res × List Call :=
  let g := match mode with
    | .dflt => none
    | _ => s.globalMap
  let v1 := decide (mode = .v1)
  let sn := if v1 then toV1 (save s) else save s
  match restore g s.rmRoot sn v1 with
  | none => (s, .restoreFailed "restore" .persist, [])
  | some s' =>
    match reattach s' (liveMounts s) with
    | (s2, calls, none) => (s2, .unit, calls)
    | (s2, calls, some r) => (s2, r, calls)

/-- one step of a history -/
def step (s : State) : Op → State × Res × List Call
  | .mount b path map => s.mount b path map
  | .umount path => s.umount path
  | .init opts => s.init opts
  | .destroy => s.destroy
  | .req r => match s.handle r with
    | some (res, calls) => (s, res, calls)
    | none => (s, .panic, [])
  | .saveRestore mode => saveRestore s mode

/-- a whole history; a panic ends it (the `Vfs` is unusable afterwards: poisoned lock) -/
def run : State → List Op → List (Res × List Call)
  | _, [] => []
  | s, op :: rest =>
    match step s op with
    | (_, .panic, calls) => [(.panic, calls)]
    | (s', r, calls) => (r, calls) :: run s' rest

/-- the state after a history (stops at a panic) -/
def after : State → List Op → State
  | s, [] => s
  | s, op :: rest =>
    match step s op with
    | (_, .panic, _) => s
    | (s', _, _) => after s' rest

end Fbr.Persist
