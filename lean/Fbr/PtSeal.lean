/-
  Fbr.PtSeal — executable model of the size-changing request paths of the passthrough file
  system under `seal_size` (src/passthrough/sync_io.rs: `open`/`do_open`, `create`, `write`,
  `setattr`, `fallocate`, `release`, `check_fd_flags`, `open_inode`, `get_data`;
  src/passthrough/mod.rs: `seal_size_check`, `HandleData`, `create_file_excl`), together with a
  reference host (regular files with sizes, descriptors with an access mode and the `O_APPEND` /
  `O_DIRECT` status bits that `fcntl(F_SETFL)` can change).

  Host laws built into the reference host (and validated against the sandbox kernel + ext4 by the
  correspondence run): `pwrite64` on an `O_APPEND` descriptor writes at end-of-file whatever the
  offset; `openat(.., O_TRUNC)` truncates a regular file whatever the access mode;
  `fallocate` follows the mode table (`falErr` is the host's own answer for every mode word,
  probed by the harness: unsupported combinations, read-only descriptors); `ftruncate` sets the
  size.  A request yields its result, the new state and the list of host calls it made.

  Flag words are carried decoded (`Flags`): the access mode, the five bits the model cares about
  and every other bit as a number, so equality of records is equality of the `u32` words.
-/
namespace Fbr.PtSeal

def EPERM : Nat := 1
def EBADF : Nat := 9
def EEXIST : Nat := 17
def EINVAL : Nat := 22
def EFBIG : Nat := 27
def ENOSYS : Nat := 38
def EOPNOTSUPP : Nat := 95

def I64 : Nat := 2 ^ 63
def U64 : Nat := 2 ^ 64

/-! ### flag words -/

structure Flags where
  acc : Nat := 0         -- flags & O_ACCMODE: 0 RDONLY, 1 WRONLY, 2 RDWR, 3
  creat : Bool := false
  excl : Bool := false
  trunc : Bool := false
  append : Bool := false
  direct : Bool := false
  rest : Nat := 0        -- all other bits of the word
  deriving Repr, DecidableEq, Inhabited

def O_CREAT : Nat := 64
def O_EXCL : Nat := 128
def O_TRUNC : Nat := 512
def O_APPEND : Nat := 1024
def O_DIRECT : Nat := 16384

def Flags.ofNat (w : Nat) : Flags :=
  { acc := w % 4, creat := w / 64 % 2 == 1, excl := w / 128 % 2 == 1, trunc := w / 512 % 2 == 1,
    append := w / 1024 % 2 == 1, direct := w / 16384 % 2 == 1,
    rest := w - w % 4 - (w / 64 % 2) * 64 - (w / 128 % 2) * 128 - (w / 512 % 2) * 512
              - (w / 1024 % 2) * 1024 - (w / 16384 % 2) * 16384 }

/-- `O_RDWR` -/
def rdwr : Flags := { acc := 2 }

/-! ### fallocate modes -/

def FL_KEEP_SIZE : Nat := 1
def FL_PUNCH_HOLE : Nat := 2
def FL_COLLAPSE : Nat := 8
def FL_ZERO : Nat := 16
def FL_INSERT : Nat := 32
def FL_UNSHARE : Nat := 64

/-- `mode & !(FALLOC_FL_KEEP_SIZE | FALLOC_FL_UNSHARE_RANGE)` -/
def fallocOp (mode : Nat) : Nat := mode - (mode % 2) - (mode / 64 % 2) * 64

def keepSize (mode : Nat) : Bool := mode % 2 == 1

/-! ### reference host -/

/-- an open descriptor -/
structure HFd where
  canWrite : Bool
  append : Bool
  direct : Bool
  deriving Repr, DecidableEq, Inhabited

structure Host where
  /-- regular files by id: size, `none` = no such file -/
  size : Nat → Option Nat
  /-- alignment demanded from `O_DIRECT` writes (0 = none) -/
  dio : Nat := 512
  /-- largest file size of the file system -/
  maxBytes : Nat := 17592186040320
  blk : Nat := 4096
  /-- the host's errno for `fallocate(mode)` with a valid in-range request, by mode word and
      by whether the descriptor is open for writing (`none` = performed) -/
  falErr : Nat → Bool → Option Nat := fun _ w => if w then none else some EBADF

def upd {α : Type} (f : Nat → α) (k : Nat) (v : α) : Nat → α := fun x => if x = k then v else f x

inductive HostCall where
  | reopen (file : Nat) (fl : Flags)             -- openat(/proc/self/fd/N, flags)
  | createExcl (file : Nat) (fl : Flags)         -- openat(dir, name, flags | O_CREAT | O_EXCL)
  | setfl (file : Nat) (fl : Flags)              -- fcntl(fd, F_SETFL, flags)
  | fstat (file : Nat)
  | getfl (file : Nat)
  | pwrite (file len off : Nat) (append : Bool)
  | fallocate (file mode off len : Nat)
  | ftruncate (file size : Nat)
  | fchmod (file : Nat)
  deriving Repr, DecidableEq, Inhabited

def fdOf (fl : Flags) : HFd :=
  { canWrite := fl.acc == 1 || fl.acc == 2, append := fl.append, direct := fl.direct }

/-- `openat` of an existing regular file (through /proc/self/fd): root may open anything;
    `O_TRUNC` truncates whatever the access mode -/
def hostOpen (H : Host) (file : Nat) (fl : Flags) : Host × Except Nat HFd :=
  match H.size file with
  | none => (H, .error 2)
  | some _ =>
    ((if fl.trunc then { H with size := upd H.size file (some 0) } else H), .ok (fdOf fl))

/-- `pwrite64(fd, buf, len, off)` -/
def hostPwrite (H : Host) (file : Nat) (fd : HFd) (len off : Nat) : Host × Except Nat Nat :=
  if off ≥ I64 then (H, .error EINVAL)
  else if !fd.canWrite then (H, .error EBADF)
  else if len = 0 then (H, .ok 0)
  else
    match H.size file with
    | none => (H, .error EBADF)
    | some sz =>
      let pos := if fd.append then sz else off
      if fd.direct && H.dio != 0 && (pos % H.dio != 0 || len % H.dio != 0) then (H, .error EINVAL)
      else if pos + len ≥ I64 then (H, .error EINVAL)
      else if pos + len > H.maxBytes then (H, .error EFBIG)
      else ({ H with size := upd H.size file (some (max sz (pos + len))) }, .ok len)

/-- `fallocate64(fd, mode, off, len)` -/
def hostFallocate (H : Host) (file : Nat) (fd : HFd) (mode off len : Nat) : Host × Except Nat Unit :=
  if off ≥ I64 || len ≥ I64 || len = 0 then (H, .error EINVAL)
  else
    match H.falErr mode fd.canWrite with
    | some e => (H, .error e)
    | none =>
      match H.size file with
      | none => (H, .error EBADF)
      | some sz =>
        let op := fallocOp mode
        if off + len > H.maxBytes then (H, .error EFBIG)
        else if op = 0 || op = FL_ZERO then
          if keepSize mode then (H, .ok ())
          else ({ H with size := upd H.size file (some (max sz (off + len))) }, .ok ())
        else if op = FL_PUNCH_HOLE then (H, .ok ())
        else if op = FL_COLLAPSE then
          if off % H.blk != 0 || len % H.blk != 0 || off + len ≥ sz then (H, .error EINVAL)
          else ({ H with size := upd H.size file (some (sz - len)) }, .ok ())
        else if op = FL_INSERT then
          if off % H.blk != 0 || len % H.blk != 0 || off ≥ sz then (H, .error EINVAL)
          else if sz + len > H.maxBytes then (H, .error EFBIG)
          else ({ H with size := upd H.size file (some (sz + len)) }, .ok ())
        else (H, .error EOPNOTSUPP)

/-- `ftruncate(fd, size)` -/
def hostFtruncate (H : Host) (file : Nat) (fd : HFd) (n : Nat) : Host × Except Nat Unit :=
  if n ≥ I64 then (H, .error EINVAL)
  else if !fd.canWrite then (H, .error EINVAL)
  else if n > H.maxBytes then (H, .error EFBIG)
  else match H.size file with
    | none => (H, .error EBADF)
    | some _ => ({ H with size := upd H.size file (some n) }, .ok ())

/-! ### file-system state -/

structure Cfg where
  sealed : Bool := true
  noOpen : Bool := false
  allowDirectIo : Bool := true
  /-- the writeback cache was negotiated at INIT -/
  writeback : Bool := false
  deriving Repr, DecidableEq, Inhabited

/-- `HandleData` -/
structure Hnd where
  file : Nat          -- inode
  fd : HFd
  stored : Flags      -- open_flags
  deriving Repr, DecidableEq, Inhabited

structure St where
  host : Host
  handles : Nat → Option Hnd := fun _ => none
  next : Nat := 1

inductive Req where
  | opn (file : Nat) (fl : Flags)
  | create (file : Nat) (fl : Flags)
  | write (file h : Nat) (fl : Flags) (len off : Nat)
  | setattr (file : Nat) (h : Option Nat) (setSize : Bool) (size : Nat) (setMode : Bool)
  | fallocate (file h mode off len : Nat)
  | release (file h : Nat)
  deriving Repr, DecidableEq, Inhabited

structure Out where
  st : St
  ret : Except Nat Nat          -- Ok(value) (handle / bytes / 0) or errno
  calls : List HostCall := []

/-- `seal_size_check` for WRITE (`start` already is end-of-file for an append-mode descriptor) -/
def sealCheckWrite (fileSize start len : Nat) : Except Nat Unit :=
  if start + len ≥ U64 then .error EINVAL
  else if len + start > fileSize then .error EPERM
  else .ok ()

/-- `seal_size_check` for FALLOCATE -/
def sealCheckFallocate (fileSize off len mode : Nat) : Except Nat Unit :=
  if off + len ≥ U64 then .error EINVAL
  else
    let op := fallocOp mode
    if op = 0 || op = FL_PUNCH_HOLE || op = FL_ZERO then
      if len + off > fileSize then .error EPERM else .ok ()
    else if op = FL_COLLAPSE || op = FL_INSERT then .error EPERM
    else .error EINVAL

/-- `get_writeback_open_flags`: with the writeback cache on, write-only becomes read-write (the
    kernel may read what it caches) and `O_APPEND` is cleared (the kernel resolves it) -/
def wbFlags (wb : Bool) (fl : Flags) : Flags :=
  if wb then { fl with acc := if fl.acc = 1 then 2 else fl.acc, append := false } else fl

/-- `open_inode(inode, flags)`: the host open with `O_CREAT` dropped (`reopen_fd_through_proc`)
    and `O_DIRECT` dropped unless allowed -/
def openFlags (cfg : Cfg) (fl : Flags) : Flags :=
  { wbFlags cfg.writeback fl with creat := false, direct := fl.direct && cfg.allowDirectIo }

def openInode (cfg : Cfg) (st : St) (file : Nat) (fl : Flags) : St × Except Nat HFd × List HostCall :=
  let ofl := openFlags cfg fl
  let (H, r) := hostOpen st.host file ofl
  ({ st with host := H }, r, [.reopen file ofl])

/-- `get_data(handle, inode, O_RDWR)`: the handle's descriptor, or a fresh one in no_open mode -/
def getData (cfg : Cfg) (st : St) (file h : Nat) : St × Except Nat Hnd × List HostCall :=
  if !cfg.noOpen then
    match st.handles h with
    | some hd => if hd.file = file then (st, .ok hd, []) else (st, .error EBADF, [])
    | none => (st, .error EBADF, [])
  else
    match openInode cfg st file rdwr with
    | (st', .ok fd, c) => (st', .ok { file := file, fd := fd, stored := rdwr }, c)
    | (st', .error e, c) => (st', .error e, c)

/-- store the (possibly updated) `HandleData` back — only real handles persist -/
def putHnd (cfg : Cfg) (st : St) (h : Nat) (hd : Hnd) : St :=
  if cfg.noOpen then st else { st with handles := upd st.handles h (some hd) }

/-- `check_fd_flags`: when the request's flag word differs from the stored one, `F_SETFL` it
    (the kernel takes `O_APPEND` and `O_DIRECT` from it) and store it -/
def checkFdFlags (hd : Hnd) (fl : Flags) : Hnd × List HostCall :=
  if hd.stored ≠ fl then
    ({ hd with fd := { hd.fd with append := fl.append, direct := fl.direct }, stored := fl }, [.setfl hd.file fl])
  else (hd, [])

def doOpen (cfg : Cfg) (st : St) (file : Nat) (fl : Flags) : Out :=
  if cfg.sealed && fl.trunc then { st := st, ret := .error EPERM }
  else
    match openInode cfg st file fl with
    | (st', .error e, c) => { st := st', ret := .error e, calls := c }
    | (st', .ok fd, c) =>
      { st := { st' with handles := upd st'.handles st'.next (some { file := file, fd := fd, stored := fl }),
                         next := st'.next + 1 },
        ret := .ok st'.next, calls := c }

def stepOpen (cfg : Cfg) (st : St) (file : Nat) (fl : Flags) : Out :=
  if cfg.noOpen then { st := st, ret := .error ENOSYS } else doOpen cfg st file fl

def stepCreate (cfg : Cfg) (st : St) (file : Nat) (fl : Flags) : Out :=
  match st.host.size file with
  | none =>
    -- create_file_excl creates it (O_TRUNC is harmless on a new file)
    let H := { st.host with size := upd st.host.size file (some 0) }
    let fd := fdOf (wbFlags cfg.writeback fl)
    let c := [HostCall.createExcl file (wbFlags cfg.writeback fl)]
    if cfg.noOpen then { st := { st with host := H }, ret := .ok 0, calls := c }
    else
      { st := { st with host := H, handles := upd st.handles st.next (some { file := file, fd := fd, stored := fl }),
                        next := st.next + 1 },
        ret := .ok st.next, calls := c }
  | some _ =>
    let c := [HostCall.createExcl file (wbFlags cfg.writeback fl)]
    if fl.excl then { st := st, ret := .error EEXIST, calls := c }
    else if cfg.sealed && fl.trunc then { st := st, ret := .error EPERM, calls := c }
    else
      match openInode cfg st file fl with
      | (st', .error e, c') => { st := st', ret := .error e, calls := c ++ c' }
      | (st', .ok fd, c') =>
        if cfg.noOpen then { st := st', ret := .ok 0, calls := c ++ c' }
        else
          { st := { st' with handles := upd st'.handles st'.next (some { file := file, fd := fd, stored := fl }),
                             next := st'.next + 1 },
            ret := .ok st'.next, calls := c ++ c' }

def stepWrite (cfg : Cfg) (st : St) (file h : Nat) (fl : Flags) (len off : Nat) : Out :=
  match getData cfg st file h with
  | (st1, .error e, c) => { st := st1, ret := .error e, calls := c }
  | (st1, .ok hd0, c0) =>
    let (hd, c1) := checkFdFlags hd0 fl
    let st2 := putHnd cfg st1 h hd
    let sealed : Except Nat Unit × List HostCall :=
      if cfg.sealed then
        match st2.host.size file with
        | none => (.error EBADF, [.fstat file])
        | some sz =>
          let start := if hd.fd.append then sz else off
          (sealCheckWrite sz start len, [.fstat file, .getfl file])
      else (.ok (), [])
    match sealed with
    | (.error e, c2) => { st := st2, ret := .error e, calls := c0 ++ c1 ++ c2 }
    | (.ok (), c2) =>
      let (H, r) := hostPwrite st2.host file hd.fd len off
      { st := { st2 with host := H }, ret := r, calls := c0 ++ c1 ++ c2 ++ [.pwrite file len off hd.fd.append] }

/-- the descriptor SETATTR works on: the handle's, unless no_open or no handle was given -/
def setattrHnd (cfg : Cfg) (st : St) (file : Nat) (h : Option Nat) : Except Nat (Option Hnd) :=
  if cfg.noOpen then .ok none
  else match h with
    | none => .ok none
    | some hh => match st.handles hh with
      | some hd => if hd.file = file then .ok (some hd) else .error EBADF
      | none => .error EBADF

/-- the `valid.contains(SIZE)` part of SETATTR: `ftruncate` on the handle's descriptor or on a
    fresh `O_NONBLOCK | O_RDWR` one -/
def doTruncate (cfg : Cfg) (st : St) (file : Nat) (hd : Option Hnd) (size : Nat) (c1 : List HostCall) : Out :=
  match hd with
  | some hd =>
    let (H, r) := hostFtruncate st.host file hd.fd size
    match r with
    | .error e => { st := { st with host := H }, ret := .error e, calls := c1 ++ [.ftruncate file size] }
    | .ok () => { st := { st with host := H }, ret := .ok 0, calls := c1 ++ [.ftruncate file size] }
  | none =>
    match openInode cfg st file { rdwr with rest := 2048 } with
    | (st', .error e, c) => { st := st', ret := .error e, calls := c1 ++ c }
    | (st', .ok fd, c) =>
      let (H, r) := hostFtruncate st'.host file fd size
      match r with
      | .error e => { st := { st' with host := H }, ret := .error e, calls := c1 ++ c ++ [.ftruncate file size] }
      | .ok () => { st := { st' with host := H }, ret := .ok 0, calls := c1 ++ c ++ [.ftruncate file size] }

def stepSetattr (cfg : Cfg) (st : St) (file : Nat) (h : Option Nat) (setSize : Bool) (size : Nat) (setMode : Bool) : Out :=
  match st.host.size file with
  | none => { st := st, ret := .error EBADF }
  | some _ =>
    match setattrHnd cfg st file h with
    | .error e => { st := st, ret := .error e }
    | .ok hd =>
      if setSize && cfg.sealed then { st := st, ret := .error EPERM }
      else
        let c1 := if setMode then [HostCall.fchmod file] else []
        if setSize then doTruncate cfg st file hd size c1
        else { st := st, ret := .ok 0, calls := c1 }

def stepFallocate (cfg : Cfg) (st : St) (file h mode off len : Nat) : Out :=
  match getData cfg st file h with
  | (st1, .error e, c) => { st := st1, ret := .error e, calls := c }
  | (st1, .ok hd, c0) =>
    let sealed : Except Nat Unit × List HostCall :=
      if cfg.sealed then
        match st1.host.size file with
        | none => (.error EBADF, [.fstat file])
        | some sz => (sealCheckFallocate sz off len mode, [.fstat file])
      else (.ok (), [])
    match sealed with
    | (.error e, c2) => { st := st1, ret := .error e, calls := c0 ++ c2 }
    | (.ok (), c2) =>
      let (H, r) := hostFallocate st1.host file hd.fd mode off len
      match r with
      | .error e => { st := { st1 with host := H }, ret := .error e, calls := c0 ++ c2 ++ [.fallocate file mode off len] }
      | .ok () => { st := { st1 with host := H }, ret := .ok 0, calls := c0 ++ c2 ++ [.fallocate file mode off len] }

def stepRelease (cfg : Cfg) (st : St) (file h : Nat) : Out :=
  if cfg.noOpen then { st := st, ret := .error ENOSYS }
  else match st.handles h with
    | some hd =>
      if hd.file = file then { st := { st with handles := upd st.handles h none }, ret := .ok 0 }
      else { st := st, ret := .error EBADF }
    | none => { st := st, ret := .error EBADF }

def step (cfg : Cfg) (st : St) : Req → Out
  | .opn file fl => stepOpen cfg st file fl
  | .create file fl => stepCreate cfg st file fl
  | .write file h fl len off => stepWrite cfg st file h fl len off
  | .setattr file h setSize size setMode => stepSetattr cfg st file h setSize size setMode
  | .fallocate file h mode off len => stepFallocate cfg st file h mode off len
  | .release file h => stepRelease cfg st file h

/-- a whole history -/
def run (cfg : Cfg) (st : St) : List Req → St
  | [] => st
  | r :: rs => run cfg (step cfg st r).st rs

end Fbr.PtSeal
