import Fbr.Abi
import Fbr.AbiSpec
import Fbr.Conv
import Fbr.Proto
import Fbr.Thm.C13
