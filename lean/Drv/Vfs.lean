/- driver for the `vfs` engine: one whole history per line through `Fbr.Persist.run` -/
import Fbr.Proto
import Fbr.Vfs
import Fbr.Persist
import Fbr.VfsShow
open Fbr Fbr.Proto Fbr.VfsShow

def main : IO Unit := do loop (← IO.getStdin) runLine
