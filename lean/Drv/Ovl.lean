/- driver for the `ovl` engine: one case (layers + operation history) per line through `Fbr.Ovl` -/
import Fbr.Proto
import Fbr.Ovl
import Fbr.OvlShow
open Fbr Fbr.Proto Fbr.OvlShow

def main : IO Unit := do loop (← IO.getStdin) runLine
