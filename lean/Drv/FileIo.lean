/- driver for the `fileio` stage (C04/C20): vectored positioned file I/O of the file adapters.
   case:  m=<rv|wv|arv|awv|ra|wa|ara|awa> flen=<n> off=<o> segs=<l1,l2,..> seed=<s>
   out :  ret=<count> file=<bytes> bufs=<bytes of each buffer>  (numbers separated by '.') -/
import Fbr.Proto
import Fbr.FileIo
open Fbr.Proto Fbr.FileIo

def filePat (seed i : Nat) : Nat := (i * 7 + seed) % 251
def dataPat (seed i : Nat) : Nat := (i * 13 + seed + 5) % 253

def showBytes (b : List Nat) : String := ".".intercalate (b.map toString)

/-- the data of the write buffers: consecutive pieces of one pattern -/
def cut (seed : Nat) : Nat → List Nat → List (List Nat)
  | _, [] => []
  | start, l :: rest => ((List.range l).map fun i => dataPat seed (start + i)) :: cut seed (start + l) rest

def runLine (line : String) : String :=
  let kv := tokens line
  let flen := getNatD kv "flen"
  let off := getNatD kv "off"
  let seed := getNatD kv "seed"
  let segs := natList (getD kv "segs")
  let file := (List.range flen).map (filePat seed)
  let m := getD kv "m"
  if m == "rv" || m == "arv" || m == "ra" || m == "ara" then
    let r := readVec file off segs
    s!"ret={r.2} file={showBytes file} bufs={",".intercalate (r.1.map showBytes)}"
  else
    let ds := cut seed 0 segs
    let r := writeVec file off ds
    s!"ret={r.2} file={showBytes r.1} bufs={",".intercalate (ds.map showBytes)}"

def main : IO Unit := do
  loop (← IO.getStdin) runLine
