/- driver for the async half of the `srv` engine (C20) -/
import Fbr.Proto
import Fbr.SrvShow
open Fbr Fbr.Proto Fbr.SrvShow

def main : IO Unit := do loop (← IO.getStdin) (fun line => runLine line true)
