/- driver for the `abi` engine (C13): layouts from the generated Rust table via `Abi.layout`,
   conversions via `Fbr.Conv`. -/
import Fbr.Proto
import Fbr.Abi
import Fbr.Conv
import Fbr.Gen.AbiRust
import Fbr.Gen.AbiKernel
import Fbr.AbiSpec
open Fbr Fbr.Proto Fbr.Conv

def showAttr (a : Attr) : String :=
  s!"ino={a.ino} size={a.size} blocks={a.blocks} atime={a.atime} mtime={a.mtime} ctime={a.ctime} atimensec={a.atimensec} mtimensec={a.mtimensec} ctimensec={a.ctimensec} mode={a.mode} nlink={a.nlink} uid={a.uid} gid={a.gid} rdev={a.rdev} blksize={a.blksize} flags={a.flags}"

def showStat (s : Stat) : String :=
  s!"ino={s.ino} size={s.size} blocks={s.blocks} atime={s.atime} mtime={s.mtime} ctime={s.ctime} atime_nsec={s.atimeNsec} mtime_nsec={s.mtimeNsec} ctime_nsec={s.ctimeNsec} mode={s.mode} nlink={s.nlink} uid={s.uid} gid={s.gid} rdev={s.rdev} blksize={s.blksize}"

def readStat (kv : List (String × String)) : Stat :=
  { ino := getNatD kv "ino", size := getNatD kv "size", blocks := getNatD kv "blocks",
    atime := getNatD kv "atime", mtime := getNatD kv "mtime", ctime := getNatD kv "ctime",
    atimeNsec := getNatD kv "atime_nsec", mtimeNsec := getNatD kv "mtime_nsec",
    ctimeNsec := getNatD kv "ctime_nsec", mode := getNatD kv "mode", nlink := getNatD kv "nlink",
    uid := getNatD kv "uid", gid := getNatD kv "gid", rdev := getNatD kv "rdev",
    blksize := getNatD kv "blksize" }

def readAttr (kv : List (String × String)) : Attr :=
  { ino := getNatD kv "ino", size := getNatD kv "size", blocks := getNatD kv "blocks",
    atime := getNatD kv "atime", mtime := getNatD kv "mtime", ctime := getNatD kv "ctime",
    atimensec := getNatD kv "atimensec", mtimensec := getNatD kv "mtimensec",
    ctimensec := getNatD kv "ctimensec", mode := getNatD kv "mode", nlink := getNatD kv "nlink",
    uid := getNatD kv "uid", gid := getNatD kv "gid", rdev := getNatD kv "rdev",
    blksize := getNatD kv "blksize", flags := getNatD kv "flags" }

def readSetattr (kv : List (String × String)) : SetattrIn :=
  { valid := getNatD kv "valid", fh := getNatD kv "fh", size := getNatD kv "size",
    lockOwner := getNatD kv "lock_owner", atime := getNatD kv "atime", mtime := getNatD kv "mtime",
    ctime := getNatD kv "ctime", atimensec := getNatD kv "atimensec", mtimensec := getNatD kv "mtimensec",
    ctimensec := getNatD kv "ctimensec", mode := getNatD kv "mode", uid := getNatD kv "uid",
    gid := getNatD kv "gid" }

def readStatvfs (kv : List (String × String)) : Statvfs :=
  { blocks := getNatD kv "blocks", bfree := getNatD kv "bfree",
    bavail := getNatD kv "bavail", files := getNatD kv "files", ffree := getNatD kv "ffree",
    bsize := getNatD kv "bsize", namemax := getNatD kv "namemax", frsize := getNatD kv "frsize" }

def readEntry (kv : List (String × String)) : Entry :=
  { inode := getNatD kv "inode", generation := getNatD kv "generation",
    attr := readStat kv, attrFlags := getNatD kv "attr_flags", attrSecs := getNatD kv "attr_secs",
    attrNanos := getNatD kv "attr_nanos", entrySecs := getNatD kv "entry_secs",
    entryNanos := getNatD kv "entry_nanos" }

/-- executable twin of the C13 theorems: the concrete table rows on which they fail -/
def witnesses : List String :=
  let badStructs := (AbiSpec.structPairs.filter fun p => !Abi.pairOk Gen.rustStructs Gen.kernelStructs p).map
    fun p => s!"struct {p.rust} differs from kernel {p.kernel}"
  let uncovered := (Gen.rustStructs.filter fun s =>
      !(AbiSpec.structPairs.any fun p => p.rust == s.name || p.mode == Abi.Mode.concat s.name)
      && !AbiSpec.structsWithoutCounterpart.contains s.name).map fun s => s!"struct {s.name} has no pairing"
  let badConsts := AbiSpec.constPairs.filterMap fun (r, k) =>
    match Gen.rustConsts.lookup r, Gen.kernelMacros.lookup k with
    | some a, some b => if a == b then none else some s!"const {r}={a} but kernel {k}={b}"
    | none, _ => some s!"const {r} missing in source"
    | _, none => some s!"kernel macro {k} missing"
  let uncoveredConsts := (Gen.rustConsts.filter fun c =>
      !(AbiSpec.constPairs.any fun p => p.1 == c.1) && !AbiSpec.constsWithoutCounterpart.contains c.1).map
    fun c => s!"const {c.1} has no pairing"
  let bfv (ty m : String) : Option Nat :=
    match Gen.rustBitflags.find? (·.1 == ty) with
    | some (_, _, ms) => ms.lookup m
    | none => none
  let badFlags := AbiSpec.bitflagPairs.filterMap fun (ty, m, k) =>
    match bfv ty m, Gen.kernelMacros.lookup k with
    | some a, some b => if a == b then none else some s!"flag {ty}::{m}={a} but kernel {k}={b}"
    | none, _ => some s!"flag {ty}::{m} missing in source"
    | _, none => some s!"kernel macro {k} missing"
  let ev (en v : String) : Option Nat :=
    match Gen.rustEnums.find? (·.1 == en) with
    | some (_, _, vs) => vs.lookup v
    | none => none
  let kev (en m : String) : Option Nat :=
    match Gen.kernelEnums.find? (·.1 == en) with
    | some (_, ms) => ms.lookup m
    | none => none
  let badOps := AbiSpec.opcodePairs.filterMap fun (r, k) =>
    match ev "Opcode" r, kev "fuse_opcode" k with
    | some a, some b => if a == b then none else some s!"opcode {r}={a} but kernel {k}={b}"
    | _, _ => some s!"opcode {r}/{k} missing"
  let badNotify := AbiSpec.notifyPairs.filterMap fun (r, k) =>
    match ev "NotifyOpcode" r, kev "fuse_notify_code" k with
    | some a, some b => if a == b then none else some s!"notify code {r}={a} but kernel {k}={b}"
    | _, _ => some s!"notify code {r}/{k} missing"
  let known := (AbiSpec.opcodePairs.filter fun p => p.1 != "CuseInitBswapReserved" && p.1 != "InitBswapReserved").filterMap
    fun p => kev "fuse_opcode" p.2
  let mx := (ev "Opcode" "MaxOpcode").getD 0
  let badFrom := ((List.range 4200) ++ [1048576, 436207616, 4294967295]).filterMap fun n =>
    let want := if known.contains n then n else mx
    if Gen.opcodeFrom n == want then none else some s!"Opcode::from({n})={Gen.opcodeFrom n} expected {want}"
  let badConv := if Gen.convs == Conv.expectedConvs then [] else ["conversion functions differ from the modelled source text"]
  let unk := (Gen.rustConstsUnknown ++ Gen.rustBitflagsUnknown ++ Gen.opcodeFromUnknownArms).map fun u => s!"translator: unknown construct {u}"
  badStructs ++ uncovered ++ badConsts ++ uncoveredConsts ++ badFlags ++ badOps ++ badNotify ++ badFrom ++ badConv ++ unk

def step (line : String) : String :=
  let kv := tokens line
  match get kv "op" with
  | some "layout" =>
    let nm := getD kv "struct"
    match Gen.rustStructs.find? (·.name == nm) with
    | none => "unknown-struct"
    | some st =>
      match Abi.layout Gen.rustStructs st with
      | none => "no-layout"
      | some (fs, size) =>
        s!"size={size} fields=" ++ ",".intercalate (fs.map fun (n, o, w) => n ++ ":" ++ toString o ++ ":" ++ toString w)
  | some "const" =>
    match Gen.rustConsts.lookup (getD kv "name") with
    | some v => s!"value={v}"
    | none => "unknown-const"
  | some "opcode_from" => s!"value={Gen.opcodeFrom (getNatD kv "n")}"
  | some "attr_with_flags" => showAttr (attrWithFlags (readStat kv) (getNatD kv "flags"))
  | some "stat_of_attr" => showStat (statOfAttr (readAttr kv))
  | some "stat_of_setattr" => showStat (statOfSetattr (readSetattr kv))
  | some "kstatfs" =>
    let k := kstatfsOfStatvfs (readStatvfs kv)
    s!"blocks={k.blocks} bfree={k.bfree} bavail={k.bavail} files={k.files} ffree={k.ffree} bsize={k.bsize} namelen={k.namelen} frsize={k.frsize}"
  | some "entry_out" =>
    let o := entryOutOfEntry (readEntry kv)
    s!"nodeid={o.nodeid} generation={o.generation} entry_valid={o.entryValid} attr_valid={o.attrValid} entry_valid_nsec={o.entryValidNsec} attr_valid_nsec={o.attrValidNsec} " ++ showAttr o.attr
  | some "witness" => if witnesses.isEmpty then "none" else "WITNESS " ++ " ; ".intercalate witnesses
  | _ => "bad-op"

def main : IO Unit := do loop (← IO.getStdin) step
