/- driver for the `ptrefs` engine: one whole history per line through `Fbr.PtRefs.stepCap` -/
import Fbr.Proto
import Fbr.PtRefs
import Fbr.PtRefsShow
open Fbr Fbr.Proto

def main : IO Unit := do loop (← IO.getStdin) Fbr.PtRefsShow.runLine
