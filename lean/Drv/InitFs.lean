/- driver for the `initfs` engine (C12, layer toggles) -/
import Fbr.Proto
import Fbr.InitFs
open Fbr Fbr.Proto Fbr.InitFs

def b01 (b : Bool) : String := if b then "1" else "0"

def readLayer (kv : List (String × String)) : LayerCfg :=
  { doImport := getNatD kv "import" == 1, writeback := getNatD kv "wb" == 1, noOpen := getNatD kv "no_open" == 1,
    noOpendir := getNatD kv "no_opendir" == 1, killprivV2 := getNatD kv "kp" == 1, perfileDax := getNatD kv "dax" == 1 }

def readVfs (kv : List (String × String)) : VfsOpts :=
  { noOpen := getNatD kv "no_open" == 1, noOpendir := getNatD kv "no_opendir" == 1,
    noWriteback := getNatD kv "no_wb" == 1, killprivV2 := getNatD kv "kp" == 1, outOpts := getNatD kv "out" }

/-- `seq` = comma separated steps `i<capable>` (init) / `d` (destroy) -/
def runVfsSeq (o : VfsOpts) (steps : List String) : String :=
  let (_, outs) := steps.foldl (fun (acc : VfsState × List String) st =>
    let (s, outs) := acc
    if st == "d" then (vfsDestroy s, outs ++ ["d"])
    else
      let cap := (st.drop 1).toString.toNat?.getD 0
      match vfsInit s cap with
      | (s', some w) => (s', outs ++ [s!"ok:{w}:{b01 s'.opts.noOpen}:{b01 s'.opts.noOpendir}"])
      | (s', none) => (s', outs ++ [s!"einval:{b01 s'.opts.noOpen}:{b01 s'.opts.noOpendir}"]))
    ({ opts := o }, [])
  ",".intercalate outs

def step (line : String) : String :=
  let kv := tokens line
  match getD kv "fs" with
  | "vfs" => "res=" ++ runVfsSeq (readVfs kv) ((getD kv "seq").splitOn ",")
  | "pt" =>
    let (w, t) := ptInit (ptNormalize (readLayer kv) (getNatD kv "cache" 1)) (getNatD kv "cap")
    s!"want={w} no_open={b01 t.noOpen} no_opendir={b01 t.noOpendir} dax={b01 t.perfileDax}"
  | "ovl" =>
    let (w, t) := ovlInit (readLayer kv) (getNatD kv "cap")
    s!"want={w} no_open={b01 t.noOpen} no_opendir={b01 t.noOpendir}"
  | _ => "bad-op"

def main : IO Unit := do loop (← IO.getStdin) step
