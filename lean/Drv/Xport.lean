/- driver for the `xport` engine (C04/C17): one case per line = memory layout + chain shape +
   operation list; runs `Fbr.Xport.run` and prints the canonical observation line.

   case line:  t=virtio p=<page> lay=<id>:<base>:<size>,…  chain=<r|w>:<addr>:<len>,…  ops=<op>;…
               t=fusedev req=<n> cap=<n> ops=<op>;…
   ops:        rd:h:n  ro:h:n  rt:h:count:kind:at:answers  re:h:count:kind:answers  rs:h:k
               wr:h:len:seed  wv:h:len,len,…:seed  wf:h:count:kind:at:seed:answers
               wa:h:count:kind:seed:answers  ws:h:k  wc:h:other      (fw fv ff fa fs fc: fusedev)
               ar:len:n:addr  aw:len:n:addr:seed  as:len:n:addr  ax:len:n:addr:seed
               al:len:width:addr  at:len:width:addr:seed            (FileVolatileSlice adapter)
   kind = f (overrides the vectored methods) | d (trait defaults); at / other = `-` or a number;
   answers = comma list of <count> | e (EIO) | i (EINTR). -/
import Fbr.Proto
import Fbr.Xport
import Fbr.XportSys
open Fbr Fbr.Proto Fbr.Xport

namespace XportDrv

def CANARY : UInt8 := 0xC3
def GUARD : Nat := 64
/-- request bytes by position in the flat request -/
def rfill (i : Nat) : UInt8 := UInt8.ofNat ((i * 17 + 3) % 256)
/-- initial content of reply space by flat position: always even, written patterns are odd -/
def wfill (i : Nat) : UInt8 := UInt8.ofNat (((i * 31 + 7) % 256) / 2 * 2)

def fnv (bs : Bytes) : Nat :=
  bs.foldl (fun h b => ((h ^^^ b.toNat) * 16777619) % 4294967296) 2166136261

def showBytes (bs : Bytes) : String :=
  if bs.length ≤ 48 then hex bs else s!"#{bs.length}.{fnv bs}"

def nat (s : String) : Nat := s.toNat?.getD 0
def optNat (s : String) : Option Nat := if s == "-" then none else s.toNat?

def parseAns (s : String) : List Ans :=
  if s.isEmpty then [] else (s.splitOn ",").map fun t =>
    if t == "e" then Ans.err else if t == "i" then Ans.intr else Ans.n (nat t)

def mkScript (kind : String) (answers : String) (seed : Nat) : Script :=
  { kind := if kind == "d" then .dflt else .full, answers := parseAns answers, seed := seed, pos := 0,
    got := [], offered := [] }

def parseDatas (lens : String) (seed : Nat) : List Bytes :=
  let ls := natList lens
  (List.range ls.length).map fun j => patBytes (seed + j) 0 (ls.getD j 0)

/-- the transport operations -/
def parseOp (s : String) : Option Op :=
  match s.splitOn ":" with
  | ["rd", h, n] => some (.rd (nat h) (nat n))
  | ["ro", h, n] => some (.ro (nat h) (nat n))
  | ["rt", h, c, k, a, ans] => some (.rt (nat h) (nat c) (optNat a) (mkScript k ans 0))
  | ["re", h, c, k, ans] => some (.re (nat h) (nat c) (mkScript k ans 0))
  | ["rs", h, k] => some (.rs (nat h) (nat k))
  | ["wr", h, l, seed] => some (.wr (nat h) (patBytes (nat seed) 0 (nat l)))
  | ["wv", h, ls, seed] => some (.wv (nat h) (parseDatas ls (nat seed)))
  | ["wf", h, c, k, a, seed, ans] => some (.wf (nat h) (nat c) (optNat a) (mkScript k ans (nat seed)))
  | ["wa", h, c, k, seed, ans] => some (.wa (nat h) (nat c) (mkScript k ans (nat seed)))
  | ["ws", h, k] => some (.ws (nat h) (nat k))
  | ["wc", h, o] => some (.wc (nat h) (optNat o))
  | ["fw", h, l, seed] => some (.fw (nat h) (patBytes (nat seed) 0 (nat l)))
  | ["fv", h, ls, seed] => some (.fv (nat h) (parseDatas ls (nat seed)))
  | ["ff", h, c, k, a, seed, ans] => some (.ff (nat h) (nat c) (optNat a) (mkScript k ans (nat seed)))
  | ["fa", h, c, k, seed, ans] => some (.fa (nat h) (nat c) (mkScript k ans (nat seed)))
  | ["fs", h, k] => some (.fs (nat h) (nat k))
  | ["fc", h, o] => some (.fc (nat h) (optNat o))
  | _ => none

def showErr : IoErr → String
  | .invalidData => "InvalidData" | .unexpectedEof => "UnexpectedEof" | .writeZero => "WriteZero"
  | .interrupted => "Interrupted" | .other => "Other" | .splitOutOfBounds => "SplitOutOfBounds"
  | .chainOverflow => "DescriptorChainOverflow" | .findRegion => "FindMemoryRegion"
  | .guestMemory => "GuestMemoryError" | .panic _ => "panic" | .fuel => "FUEL"

def showRes (r : Except IoErr Nat) : String :=
  match r with
  | .ok n => s!"ok:{n}"
  | .error e => "err:" ++ showErr e

def showSeg (s : Seg) : String := s!"{s.region}.{s.off}.{s.len}"

def showOffered (o : List (List Seg)) : String :=
  "|".intercalate (o.map fun bufs => ",".intercalate (bufs.map showSeg))

def showObs (o : Obs) : String :=
  if !o.valid then "nohandle" else
  let c := match o.other with
    | none => s!"{o.avail},{o.used}"
    | some (a, u) => s!"{o.avail},{o.used},{a},{u}"
  showRes o.res ++ "/b=" ++ showBytes o.bytes ++ "/o=" ++ showOffered o.offered ++ "/c=" ++ c
    ++ "/fd=" ++ toString o.fd.length ++ ":" ++ "|".intercalate (o.fd.map showBytes)

/-- ranges of `fin` that differ from `ini` as `r:off:bytes` -/
def diffRegion (r : Nat) (ini fin : Bytes) : List String :=
  let rec go : List UInt8 → List UInt8 → Nat → Option (Nat × List UInt8) → List String → List String
    | a :: as, b :: bs, i, cur, acc =>
      if a != b then
        match cur with
        | none => go as bs (i + 1) (some (i, [b])) acc
        | some (s, l) => go as bs (i + 1) (some (s, b :: l)) acc
      else
        match cur with
        | none => go as bs (i + 1) none acc
        | some (s, l) => go as bs (i + 1) none (s!"{r}:{s}:{showBytes l.reverse}" :: acc)
    | _, _, _, cur, acc =>
      match cur with
      | none => acc.reverse
      | some (s, l) => (s!"{r}:{s}:{showBytes l.reverse}" :: acc).reverse
  go ini fin 0 none []

def dedupSorted : List (Nat × Nat) → List (Nat × Nat)
  | a :: b :: rest => if a == b then dedupSorted (b :: rest) else a :: dedupSorted (b :: rest)
  | l => l

def showDirty (d : Dirty) : String :=
  let sorted := dedupSorted (d.mergeSort fun a b => a.1 < b.1 || (a.1 == b.1 && a.2 ≤ b.2))
  ",".intercalate (sorted.map fun (r, pg) => s!"{r}:{pg}")

def parseLayout (s : String) : Layout :=
  if s.isEmpty then [] else (s.splitOn ",").filterMap fun t =>
    match t.splitOn ":" with
    | [i, b, z] => some (nat i, nat b, nat z)
    | _ => none

def parseChain (s : String) : List Desc :=
  if s.isEmpty then [] else (s.splitOn ",").filterMap fun t =>
    match t.splitOn ":" with
    | [k, a, l] => some { writable := k == "w", addr := nat a, len := nat l }
    | _ => none

/-- initial guest memory: canary everywhere, request pattern in readable descriptors, fill pattern
    in writable ones (by position in the respective flat area); descriptors that do not lie inside
    one region are left alone -/
def initMem (lay : Layout) (chain : List Desc) : Mem :=
  let m0 : Mem := ⟨lay.map fun (r, _, size) => (r, List.replicate size CANARY)⟩
  let (m, _, _) := chain.foldl (fun (st : Mem × Nat × Nat) d =>
    let (m, rp, wp) := st
    match findRegion lay d.addr with
    | some (r, base, size) =>
      if d.addr - base + d.len ≤ size then
        if d.writable then (m.write r (d.addr - base) ((List.range d.len).map fun i => wfill (wp + i)), rp, wp + d.len)
        else (m.write r (d.addr - base) ((List.range d.len).map fun i => rfill (rp + i)), rp + d.len, wp)
      else st
    | none => st) (m0, 0, 0)
  m

def showCounters (st : St) : String :=
  "R" ++ ",".intercalate (st.readers.map fun b => s!"{b.available}/{b.consumed}") ++
  "|W" ++ ",".intercalate (st.writers.map fun b => s!"{b.available}/{b.consumed}") ++
  "|F" ++ ",".intercalate (st.fws.map fun f => s!"{f.availableBytes}/{f.bytesWritten}")

def showInit (r : Except IoErr IoBufs) : String :=
  match r with
  | .ok _ => "ok"
  | .error e => "err:" ++ showErr e

def finish (st0 : St) (regions : List Nat) (ops : List Op) (pre : String) : String :=
  let (st, obs) := run st0 ops
  let diff := regions.foldl (fun acc r => acc ++ diffRegion r (st0.w.mem.get r) (st.w.mem.get r)) []
  pre ++ " ops=" ++ ";".intercalate (obs.map showObs) ++ " mem=" ++ ",".intercalate diff
    ++ " dirty=" ++ showDirty st.w.dirty ++ " fin=" ++ showCounters st

/-! the adapter operations (`a?` cases): a fresh slice of `len` bytes with content `wfill` -/
def showVErr : VErr → String
  | .outOfBounds _ => "OutOfBounds" | .partialBuffer e c => s!"PartialBuffer.{e}.{c}" | .misaligned => "Misaligned"

def adapterOp (s : String) : String :=
  let sl (n : Nat) : Bytes := (List.range n).map wfill
  let fin (a b : Bytes) : String := "/s=" ++ ",".intercalate (diffRegion 0 a b)
  match s.splitOn ":" with
  | ["ar", len, n, addr] =>
    match Adapter.read (sl (nat len)) (nat n) (nat addr) with
    | .ok bs => s!"ok:{bs.length}/b={showBytes bs}" ++ fin (sl (nat len)) (sl (nat len))
    | .error e => "err:" ++ showVErr e ++ "/b=" ++ fin (sl (nat len)) (sl (nat len))
  | ["aw", len, n, addr, seed] =>
    match Adapter.write (sl (nat len)) (patBytes (nat seed) 0 (nat n)) (nat addr) with
    | .ok (s', c) => s!"ok:{c}/b=" ++ fin (sl (nat len)) s'
    | .error e => "err:" ++ showVErr e ++ "/b=" ++ fin (sl (nat len)) (sl (nat len))
  | ["as", len, n, addr] =>
    -- read_slice into a buffer pre-filled with 0xAA
    let old := List.replicate (nat n) (0xAA : UInt8)
    match Adapter.readSlice (sl (nat len)) old (nat addr) with
    | (.ok (), buf) => s!"ok:0/b={showBytes buf}" ++ fin (sl (nat len)) (sl (nat len))
    | (.error e, buf) => "err:" ++ showVErr e ++ s!"/b={showBytes buf}" ++ fin (sl (nat len)) (sl (nat len))
  | ["ax", len, n, addr, seed] =>
    match Adapter.writeSlice (sl (nat len)) (patBytes (nat seed) 0 (nat n)) (nat addr) with
    | (.ok _, s') => "ok:0/b=" ++ fin (sl (nat len)) s'
    | (.error e, s') => "err:" ++ showVErr e ++ "/b=" ++ fin (sl (nat len)) s'
  | ["al", len, width, addr] =>
    match Adapter.load (sl (nat len)) (nat width) (nat addr) 0 with
    | .ok bs => s!"ok:{bs.length}/b={showBytes bs}" ++ fin (sl (nat len)) (sl (nat len))
    | .error e => "err:" ++ showVErr e ++ "/b=" ++ fin (sl (nat len)) (sl (nat len))
  | ["at", len, width, addr, seed] =>
    match Adapter.store (sl (nat len)) (patBytes (nat seed) 0 (nat width)) (nat addr) 0 with
    | (.ok (), s') => "ok:0/b=" ++ fin (sl (nat len)) s'
    | (.error e, s') => "err:" ++ showVErr e ++ "/b=" ++ fin (sl (nat len)) s'
  | _ => "badop"

def runLine (line : String) : String :=
  let kv := tokens line
  let opsS := getD kv "ops"
  let opStrs := if opsS.isEmpty then [] else opsS.splitOn ";"
  let t := getD kv "t"
  if t == "adapter" then
    "ops=" ++ ";".intercalate (opStrs.map adapterOp)
  else
  let ops := opStrs.filterMap parseOp
  if t == "fusedev" then
    let req := getNatD kv "req"
    let cap := getNatD kv "cap"
    let mem : Mem := ⟨[(1, (List.range req).map rfill),
      (2, List.replicate GUARD CANARY ++ (List.range cap).map wfill ++ List.replicate GUARD CANARY)]⟩
    let st0 : St := { w := { p := 4096, mem := mem, dirty := [], log := [], fd := [] },
                      readers := [{ segs := [{ region := 1, off := 0, len := req }], consumed := 0 }],
                      writers := [], fws := [FuseW.new 2 GUARD cap] }
    finish st0 [1, 2] ops "init=ok,ok"
  else
    let lay := parseLayout (getD kv "lay")
    let chain := parseChain (getD kv "chain")
    let rd := fromChain lay chain false
    let wr := fromChain lay chain true
    let toList (r : Except IoErr IoBufs) : List IoBufs := match r with | .ok b => [b] | .error _ => []
    let st0 : St := { w := { p := getNatD kv "p" 4096, mem := initMem lay chain, dirty := [], log := [], fd := [] },
                      readers := toList rd, writers := toList wr, fws := [] }
    finish st0 (lay.map (·.1)) ops s!"init={showInit rd},{showInit wr}"

end XportDrv

def main : IO Unit := do loop (← IO.getStdin) XportDrv.runLine
