/- driver for the `pthost` engine (C05/C06): one history per line through `Fbr.PtHost.step` -/
import Fbr.Proto
import Fbr.PtHostShow
open Fbr Fbr.Proto Fbr.PtHostShow

def main : IO Unit := do loop (← IO.getStdin) runLine
