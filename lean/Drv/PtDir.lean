/- driver for the `ptdir` engine (C16): one directory + request history per line -/
import Fbr.Proto
import Fbr.PtDirShow
open Fbr Fbr.Proto Fbr.PtDirShow

def main : IO Unit := do loop (← IO.getStdin) runLine
