/- driver for the `conc` engine: one (programs, schedule) pair per line through `Fbr.Conc.step` -/
import Fbr.Proto
import Fbr.Conc
import Fbr.ConcShow
open Fbr Fbr.Proto

def main : IO Unit := do loop (← IO.getStdin) Fbr.ConcShow.runLine
