/- driver for the `srv` engine: one request per line through `Fbr.Srv.handle` -/
import Fbr.Proto
import Fbr.Srv
import Fbr.SrvShow
open Fbr Fbr.Proto Fbr.Srv Fbr.SrvShow

def main : IO Unit := do loop (← IO.getStdin) (fun line => runLine line false)
