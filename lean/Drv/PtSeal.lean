/- driver for the `ptseal` engine (C18): one export + request history per line -/
import Fbr.Proto
import Fbr.PtSealShow
open Fbr Fbr.Proto Fbr.PtSealShow

def main : IO Unit := do loop (← IO.getStdin) runLine
