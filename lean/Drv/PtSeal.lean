/- driver for the `ptseal` engine (C18): one export + request history per line -/
import Fbr.Proto
open Fbr Fbr.Proto

def main : IO Unit := do loop (← IO.getStdin) (fun _ => "stub")
