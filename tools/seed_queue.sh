#!/bin/sh
# tools/seed_queue.sh <log-prefix> <workers> <seed-dir>...  — like seed_batch.sh, N seeds at a time,
# one log per seed (<log-prefix>-<seed>.log)
P=$1; W=$2; shift 2
printf '%s\n' "$@" | xargs -P "$W" -I{} sh -c 'd={}; tools/seed_batch.sh '"$P"'-$(basename $d).log $d >/dev/null 2>&1'
