"""Per-property configuration of ./check.  One entry per claimed property:
   thm     Lean module holding the property theorems
   stages  harness binaries to run; each writes cases.txt / impl.out / oracle.jsonl / stats.json
           and (when `driver` is set) the Lean driver is run on cases.txt and diffed with impl.out
"""
TRUST_COMMON = [
    "translator (syn parse of /repo source -> tables) and tools/gen_lean.py",
    "correspondence harness (seeded generators, canonicaliser, scripted doubles)",
]

PROPS = {
    "C13": {
        "thm": "Fbr.Thm.C13",
        "stages": [
            {"name": "abi", "bin": "abi_probe", "driver": "drv_abi",
             "quick": {"n": 3000}, "thorough": {"n": 300000}},
        ],
        "witness": {"driver": "drv_abi", "input": "op=witness\n"},
        "rule": "every #[repr(C)] struct and pub const of the ABI files (complete), opcode numbers 0..300 + "
                "powers of two + random, random stat/attr/setattr/statvfs/entry values biased to field "
                "boundaries; non-trivial+distinct = distinct output lines",
        "trusted": TRUST_COMMON + [
            "gcc's sizeof/offsetof on /usr/include/linux/fuse.h (7.38) as the kernel's definition",
            "Fbr.AbiSpec pairing tables (hand-written specification)",
        ],
        "assumptions": ["x86_64 libc::stat64 field widths", "installed fuse.h is the reference ABI"],
    },
}
