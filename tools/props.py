"""Per-property configuration of ./check: one JSON file per claimed property in tools/props.d/.
   thm       Lean module holding the property theorems (PROPERTY THEOREMS ONLY)
   stages    harness binaries to run; each writes cases.txt / impl.out / oracle.jsonl / stats.json
             and (when `driver` is set) the Lean driver is run on cases.txt and diffed with impl.out
             keys: name, bin, driver, quick{...}, thorough{...} (passed to the binary as --k v), timeout
   witness   optional {driver, input}: executable twin of the theorems, run when a proof breaks;
             every output line starting with "WITNESS " is a concrete failing input
   rule, trusted, assumptions   copied into the evidence file
   manifest  {engine, design_ref, technique, text, note} -> MANIFEST.json
"""
import glob, json, os

PROPS = {}
for f in sorted(glob.glob(os.path.join(os.path.dirname(os.path.abspath(__file__)), "props.d", "C*.json"))):
    PROPS[os.path.basename(f)[:-5]] = json.load(open(f))
