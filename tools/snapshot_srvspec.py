#!/usr/bin/env python3
"""Re-take the snapshot lean/Fbr/SrvSpec.lean from the CURRENT generated table
lean/Fbr/Gen/Server.lean.  Run by hand, and only after the models Fbr.Srv / Fbr.SrvAsync have been
brought in line with the source (it is the statement "this is the source text the model was
written from"); never run by ./check."""
import re, os
root = os.path.join(os.path.dirname(os.path.abspath(__file__)), "..", "lean", "Fbr")
src = open(os.path.join(root, "Gen", "Server.lean")).read()

def grab(name):
    m = re.search(r"def %s :[^\n]*:= \[\n.*?\n\]" % name, src, flags=re.S)
    if m:
        return m.group(0)
    m = re.search(r"def %s :[^\n]*\n" % name, src)
    return m.group(0).rstrip("\n")

out = '''/-
  Fbr.SrvSpec — the source text of `src/api/server/{sync_io,async_io}.rs` the models `Fbr.Srv`
  and `Fbr.SrvAsync` were written from, in the translator's normal form: dispatch arms and, per
  handler, the request struct it destructures, its local bindings, helper calls, the
  file-system call with its argument expressions and the reply constructors.
  `Thm.C02.handlers_as_modelled` / `Thm.C20.async_dispatch_as_modelled` prove the tables
  regenerated from today's source equal these.  (Snapshot: tools/snapshot_srvspec.py.)
-/
namespace Fbr.SrvSpec

'''
for n, new in (("srvSyncDispatch", "expectedSyncDispatch"), ("srvSyncFns", "expectedSyncFns"),
               ("srvAsyncDispatch", "expectedAsyncDispatch"), ("srvAsyncFns", "expectedAsyncFns"),
               ("srvModConsts", "expectedModConsts")):
    out += grab(n).replace("def %s" % n, "def %s" % new) + "\n\n"
out += "end Fbr.SrvSpec\n"
open(os.path.join(root, "SrvSpec.lean"), "w").write(out)
