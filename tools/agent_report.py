#!/usr/bin/env python3
"""tools/agent_report.py <agent-jsonl> <out.md> <title> — save a sub-agent's final message as a report."""
import json, sys
last = None
for line in open(sys.argv[1]):
    try: d = json.loads(line)
    except Exception: continue
    if d.get("type") == "assistant":
        txt = "".join(b.get("text", "") for b in d.get("message", {}).get("content", []) if b.get("type") == "text")
        if txt.strip(): last = txt
open(sys.argv[2], "w").write("# %s — final report of the engine's author\n\n%s\n" % (sys.argv[3], last))
