#!/bin/sh
# Confirm a seeded defect independently, in a scratch worktree of /repo's HEAD:
#   tools/confirm_seed.sh <seed-dir>     (seed-dir holds patch.diff and demo.diff)
# (1) patch applies, crate builds (default + all features), (2) the existing suite still passes
# with the patch, (3) the demonstration fails with the patch and (4) passes without it.
# Prints one line `CONFIRM <dir> build=.. suite=.. demo_with=.. demo_without=..`.
set -u
D=$(readlink -f "$1")
S=/var/tmp/fbr-seed-$$
cleanup() { git -C /repo worktree remove --force "$S" >/dev/null 2>&1; rm -rf "$S"; }
trap cleanup EXIT INT TERM
git -C /repo worktree add -q --detach "$S" HEAD || exit 3
cd "$S"
export CARGO_NET_OFFLINE=true CARGO_TARGET_DIR="$S/target"
demo_names=$(grep '^+++ b/' "$D/demo.diff" | sed 's#+++ b/##')
FEAT="--features fusedev,virtiofs,async-io,persist"
run_demo() {
  # demos are integration tests under tests/ or unit tests; run the whole suite filtered by the
  # test files the demo adds, with all features so async demos compile (a demo that is compiled
  # out under async-io is run with the default features instead, see below)
  out=$(cargo test --offline $FEAT $(for f in $demo_names; do case "$f" in tests/*.rs) echo "--test $(basename "$f" .rs)";; esac; done) 2>&1 | cat)
  if [ -z "$(for f in $demo_names; do case "$f" in tests/*.rs) echo x;; esac; done)" ]; then
    out=$(cargo test --offline $FEAT --lib 2>&1 | cat)
  fi
  echo "$out" | grep -c '^error\[E\|^error: could not compile' > "$S/.last_errors"
  echo "$out" | grep -q 'test result: FAILED\|error\[' && echo FAIL || { echo "$out" | grep -q 'test result: ok' && echo PASS || echo UNKNOWN; }
}
git apply "$D/patch.diff" || { echo "CONFIRM $D patch-does-not-apply"; exit 4; }
# (the crate is compiled with default features by the suite run and with all features by the
# demonstration run; their compiler errors are the two build_errors numbers)
suite_out=$(cargo test --workspace --no-fail-fast --offline 2>&1 | cat)
b1=$(echo "$suite_out" | grep -c '^error\[E\|^error: could not compile')
suite=$(echo "$suite_out" | grep '^test result' | head -1)
git apply "$D/demo.diff" || { echo "CONFIRM $D demo-does-not-apply"; exit 5; }
with=$(run_demo)
b2=$(cat "$S/.last_errors" 2>/dev/null || echo "?")
if [ "$with" = PASS ]; then FEAT=""; with=$(run_demo); fi
git apply -R "$D/patch.diff"
without=$(run_demo)
echo "CONFIRM $(basename $D) build_errors=$b1/$b2 suite=[$suite] demo_with_patch=$with demo_without_patch=$without"
