# sourced by setup.sh (and mirrored in ./check): rustup/cargo look under $HOME by default, and a
# restored sandbox may run the registered commands with a different HOME
if [ -z "${RUSTUP_HOME:-}" ] && [ -d /root/.rustup ]; then export RUSTUP_HOME=/root/.rustup; fi
if [ -z "${CARGO_HOME:-}" ] && [ -d /root/.cargo ]; then export CARGO_HOME=/root/.cargo; fi
case ":$PATH:" in *:/root/.cargo/bin:*) ;; *) [ -d /root/.cargo/bin ] && export PATH="/root/.cargo/bin:$PATH" ;; esac
for d in /opt/veriftools/lean/bin /usr/local/bin; do
  case ":$PATH:" in *:$d:*) ;; *) [ -d "$d" ] && export PATH="$PATH:$d" ;; esac
done
export CARGO_NET_OFFLINE=true
