#!/bin/sh
# Run checks against a patched copy of /repo without touching /repo or /verif:
#   tools/run_isolated.sh <patch.diff> <ID> [<ID>...]
# Makes a scratch worktree of /repo's HEAD + the patch and a scratch copy of /verif (build caches
# included) under /var/tmp, runs ./check there, prints the VIOLATION / KNOWN-FINDING / done lines
# and removes everything again.  Used only to validate detection of seeded defects.
set -u
PATCH=$(readlink -f "$1"); shift
S=/var/tmp/fbr-iso-$$
mkdir -p "$S"
cleanup() { git -C /repo worktree remove --force "$S/repo" >/dev/null 2>&1; rm -rf "$S"; }
trap cleanup EXIT INT TERM
git -C /repo worktree add -q --detach "$S/repo" HEAD || exit 3
if ! git -C "$S/repo" apply "$PATCH"; then echo "PATCH-DOES-NOT-APPLY"; exit 4; fi
rsync -a --exclude .git --exclude replays --exclude '.work/run-*' --exclude '.work/*-tmp' /verif/ "$S/verif/"
sed -i "s#path = \"/repo\"#path = \"$S/repo\"#" "$S/verif/harness/Cargo.toml"
sed -i "s#target-dir = \"/verif/.work/target\"#target-dir = \"$S/verif/.work/target\"#" "$S/verif/harness/.cargo/config.toml"
rc=0
for id in "$@"; do
  (cd "$S/verif" && VERIF_REPO="$S/repo" ./check "$id" 2>&1) | grep -E '^(VIOLATION|KNOWN-FINDING)|\[check\] done|does not build|failing:' | sed "s#$S##g"
  python3 - "$S/verif/replays" "$id" <<'PY'
import json, glob, sys
keys = {}
for f in sorted(glob.glob(sys.argv[1] + "/" + sys.argv[2] + "-*.json")):
    try: d = json.load(open(f))
    except Exception: continue
    k = d.get("key") or d.get("kind") or "?"
    keys[k] = keys.get(k, 0) + 1
print("KEYS %s: %s" % (sys.argv[2], "; ".join(sorted(keys)) or "-"))
PY
  if [ -n "${KEEP:-}" ]; then mkdir -p "$KEEP"; cp "$S/verif/replays/$id-"*.json "$KEEP/" 2>/dev/null; fi
done
exit $rc
