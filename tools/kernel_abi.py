#!/usr/bin/env python3
"""Kernel side of the ABI tie: parse /usr/include/linux/fuse.h (struct names + field names,
enum members, object-like macros), then let the C compiler say the truth about every
offset / size / value by compiling and running a generated probe.  Output: JSON.

usage: kernel_abi.py <out.json> [workdir]
"""
import json, os, re, subprocess, sys

HDR = "/usr/include/linux/fuse.h"


def strip_comments(s):
    s = re.sub(r"/\*.*?\*/", "", s, flags=re.S)
    s = re.sub(r"//[^\n]*", "", s)
    return s


def parse_header(text):
    text = strip_comments(text)
    structs = []
    for m in re.finditer(r"struct\s+(fuse_\w+|cuse_\w+)\s*\{(.*?)\}\s*;", text, flags=re.S):
        name, body = m.group(1), m.group(2)
        fields = []
        for decl in body.split(";"):
            decl = decl.strip()
            if not decl:
                continue
            fm = re.match(r"^(struct\s+\w+|\w+)\s+(\w+)\s*(\[\s*(\w*)\s*\])?$", decl)
            if not fm:
                fields.append({"unknown": decl})
                continue
            fields.append({"ctype": fm.group(1), "name": fm.group(2),
                           "array": fm.group(4) if fm.group(3) else None})
        structs.append({"name": name, "fields": fields})
    enums = []
    for m in re.finditer(r"enum\s+(fuse_\w+)\s*\{(.*?)\}\s*;", text, flags=re.S):
        members = []
        for part in m.group(2).split(","):
            part = part.strip()
            if not part:
                continue
            members.append(part.split("=")[0].strip())
        enums.append({"name": m.group(1), "members": members})
    macros = []
    for m in re.finditer(r"^[ \t]*#[ \t]*define[ \t]+(\w+)(\(?)", text, flags=re.M):
        if m.group(2) == "(":
            continue  # function-like
        n = m.group(1)
        if n.startswith("_"):
            continue
        macros.append(n)
    return structs, enums, macros


def main():
    out = sys.argv[1]
    work = sys.argv[2] if len(sys.argv) > 2 else os.path.dirname(os.path.abspath(out))
    os.makedirs(work, exist_ok=True)
    structs, enums, macros = parse_header(open(HDR).read())
    c = ["#include <stdio.h>", "#include <stddef.h>", "#include <stdint.h>",
         "#include <linux/fuse.h>",
         "#define FSZ(s,f) (unsigned long)sizeof(((struct s*)0)->f)",
         "int main(void){"]
    for s in structs:
        c.append('printf("S %s %%lu\\n",(unsigned long)sizeof(struct %s));' % (s["name"], s["name"]))
        for f in s["fields"]:
            if "unknown" in f:
                c.append('printf("U %s %s\\n");' % (s["name"], json.dumps(f["unknown"])[1:-1].replace("%", "%%")))
                continue
            if f["array"] == "":  # flexible array member: offset only
                c.append('printf("F %s %s %%lu 0 flex\\n",(unsigned long)offsetof(struct %s,%s));'
                         % (s["name"], f["name"], s["name"], f["name"]))
            else:
                c.append('printf("F %s %s %%lu %%lu %s\\n",(unsigned long)offsetof(struct %s,%s),FSZ(%s,%s));'
                         % (s["name"], f["name"], (f["ctype"].replace(" ", "_")), s["name"], f["name"], s["name"], f["name"]))
    for e in enums:
        for mname in e["members"]:
            c.append('printf("E %s %s %%llu\\n",(unsigned long long)%s);' % (e["name"], mname, mname))
    c.append("return 0;}")
    # macros are probed one by one at compile time (some are not numeric)
    src = os.path.join(work, "kprobe.c")
    open(src, "w").write("\n".join(c) + "\n")
    exe = os.path.join(work, "kprobe")
    subprocess.run(["gcc", "-O0", "-o", exe, src], check=True)
    lines = subprocess.run([exe], check=True, capture_output=True, text=True).stdout.splitlines()
    res = {"header": HDR, "structs": {}, "enums": {}, "macros": {}}
    for ln in lines:
        p = ln.split(" ")
        if p[0] == "S":
            res["structs"].setdefault(p[1], {"fields": []})["size"] = int(p[2])
        elif p[0] == "F":
            res["structs"].setdefault(p[1], {"fields": []})["fields"].append(
                {"name": p[2], "offset": int(p[3]), "size": int(p[4]), "ctype": p[5]})
        elif p[0] == "E":
            res["enums"].setdefault(p[1], []).append({"name": p[2], "value": int(p[3])})
        elif p[0] == "U":
            res["structs"].setdefault(p[1], {"fields": []})["fields"].append({"unknown": " ".join(p[2:])})
    # numeric macros: generate one program with all candidates guarded by __builtin_constant_p
    good = []
    for n in macros:
        t = os.path.join(work, "m.c")
        open(t, "w").write('#include <stddef.h>\n#include <linux/fuse.h>\n'
                           'unsigned long long v = (unsigned long long)(%s);\n' % n)
        r = subprocess.run(["gcc", "-fsyntax-only", t], capture_output=True)
        if r.returncode == 0:
            good.append(n)
    c = ["#include <stdio.h>", "#include <stddef.h>", "#include <linux/fuse.h>", "int main(void){"]
    for n in good:
        c.append('printf("%s %%llu\\n",(unsigned long long)(%s));' % (n, n))
    c.append("return 0;}")
    open(src, "w").write("\n".join(c) + "\n")
    subprocess.run(["gcc", "-O0", "-o", exe, src], check=True)
    for ln in subprocess.run([exe], check=True, capture_output=True, text=True).stdout.splitlines():
        n, v = ln.split(" ")
        res["macros"][n] = int(v)
    json.dump(res, open(out, "w"), indent=1)


if __name__ == "__main__":
    main()
