#!/bin/sh
# tools/take_seeds.sh <ID> [offset]  — copy /tmp/mut${W:-3}-<ID>/out/{1,2,3} to seeded/<ID>-{4,5,6}, drop the worktree
id=$1; off=${2:-3}
for k in 1 2 3; do
  n=$((k+off)); mkdir -p /verif/seeded/$id-$n
  cp /tmp/mut${W:-3}-$id/out/$k/patch.diff /tmp/mut${W:-3}-$id/out/$k/demo.diff /verif/seeded/$id-$n/ || echo "MISSING files for $id $k"
  cp /tmp/mut${W:-3}-$id/out/$k/README.md /verif/seeded/$id-$n/ 2>/dev/null
done
git -C /repo worktree remove --force /tmp/mut${W:-3}-$id; rm -rf /tmp/mut${W:-3}-$id
echo "/verif/seeded/$id-$((1+off)) /verif/seeded/$id-$((2+off)) /verif/seeded/$id-$((3+off))"
