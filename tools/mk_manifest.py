#!/usr/bin/env python3
"""Regenerate MANIFEST.json from tools/props.py + tools/manifest_meta.py (single source of truth)."""
import json, os, sys
sys.path.insert(0, os.path.dirname(os.path.abspath(__file__)))
from props import PROPS
from manifest_meta import META, HOOKS, ENGINES, NOTES, NOT_APPLICABLE

checks = []
for pid in sorted(PROPS):
    m = META[pid]
    checks.append({
        "property_id": pid,
        "quick_cmd": "./check %s --tier quick" % pid,
        "thorough_cmd": "./check %s --tier thorough" % pid,
        "evidence_file": "/verif/evidence/%s.json" % pid,
        "replay_cmd_template": "./check %s --replay {path}" % pid,
        "engine": m["engine"],
        "level_claimed": {"category": "proof", "text": m["text"], "design_ref": m["design_ref"]},
        "level_note": m["note"],
        "technique": m["technique"],
    })
all_ids = ["C%02d" % i for i in range(1, 21)]
na = [{"property_id": i, "reason": NOT_APPLICABLE.get(i, "check not built yet in this session (work in progress; no technique limitation)")}
      for i in all_ids if i not in PROPS]
man = {
    "version": 1,
    "setup_cmd": "./setup.sh",
    "hooks": HOOKS,
    "engines": ENGINES,
    "checks": checks,
    "notes": NOTES,
    "not_applicable": na,
}
json.dump(man, open(os.path.join(os.path.dirname(os.path.abspath(__file__)), "..", "MANIFEST.json"), "w"), indent=1)
