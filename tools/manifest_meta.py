HOOKS = {
    "guard": "fuse_backend_rs_verif",
    "enable": "RUSTFLAGS='--cfg fuse_backend_rs_verif' (set in /verif/harness/.cargo/config.toml; the harness is a path-dependent crate on /repo)",
    "baseline_off_cmd": "cd /repo && cargo nextest run --workspace --no-fail-fast --test-threads 8 --offline || cargo test --workspace --no-fail-fast --offline",
    "source_commits": ["ed1647a verif hook: H2 verif_table_sizes() (passthrough/mod.rs, inode_store.rs, mount_fd.rs)", "d1dd73e verif hook: H1 verif_yield(point) / verif_set_yield (passthrough/mod.rs)", "ef8a8c2 verif hook: expose skip_to_cookie / last_cookie_in_buf / only_dot_entries (passthrough/sync_io.rs)", "49ece77 verif hook: doc comments for the do_readdir buffer-helper hooks"],
    "add_only": True,
}
ENGINES = [
    {"name": "ptrefs", "path": "lean/Fbr/PtRefs.lean lean/Fbr/PtSpec.lean lean/Fbr/PtRefsShow.lean lean/Fbr/Lemmas/{PtMap,PtProj,PtRefsBasic,PtEffect,PtRef,PtTrace,PtStepTr,PtRun,PtFresh,PtSession,PtCount,PtLedger,PtLedgerOps,PtLedgerStep,PtHandles,PtFreshTables,Pack}.lean lean/Drv/PtRefs.lean harness/src/bin/ptrefs.rs",
     "serves_properties": ["C08", "C15"],
     "kind_free_text": "Lean 4 model of the passthrough inode table / handle table / mount-fd count / descriptor ledger with theorems by induction over request histories (refinement to a client-side ledger, ledger invariant under any fault oracle); differential harness driving the real PassthroughFs through whole histories on a temp dir under {inode_file_handles}x{use_host_ino}x{no_open}x{no_opendir}, getattr probes on every number ever seen, H2 table sizes, /proc/self/fd counts, EMFILE injection by RLIMIT_NOFILE headroom"},
    {"name": "conc", "path": "lean/Fbr/Conc.lean lean/Fbr/ConcShow.lean lean/Fbr/Lemmas/Conc*.lean lean/Drv/Conc.lean harness/src/bin/conc.rs",
     "serves_properties": ["C08", "C09"],
     "kind_free_text": "Lean 4 small-step model of concurrent do_lookup/forget_one with an invariant proved for any number of threads and any schedule; schedule-replay harness over hook H1 (threads parked at yield points, one released per step), random and exhaustive schedules"},
    {"name": "xport", "path": "lean/Fbr/Xport.lean lean/Fbr/XportSys.lean lean/Fbr/XportSpec.lean lean/Fbr/Lemmas/Xport*.lean lean/Drv/Xport.lean harness/src/bin/xport.rs harness/src/xscript.rs harness/src/vq.rs lean/Fbr/FileIo.lean lean/Fbr/Lemmas/FileIo.lean lean/Drv/FileIo.lean harness/src/bin/fileio.rs",
     "serves_properties": ["C04", "C17", "C20"],
     "kind_free_text": "Lean 4 model of IoBuffers/Reader/VirtioFsWriter/FuseDevWriter/FileVolatileSlice and the dirty bitmap, refined to a flat address list + cursor, with invariants proved over arbitrary operation lists; differential harness over mock virtqueue chains in GuestMemoryMmap<AtomicBitmap> (page sizes 2/64/4096), a SOCK_SEQPACKET stand-in for /dev/fuse and scripted files with short counts"},
    {"name": "srv", "path": "lean/Fbr/Wire.lean lean/Fbr/Srv.lean lean/Fbr/SrvAsync.lean lean/Fbr/SrvShow.lean lean/Fbr/SrvSpec.lean lean/Fbr/Lemmas/Srv*.lean lean/Fbr/Lemmas/Wire.lean lean/Drv/Srv.lean lean/Drv/SrvAsync.lean harness/src/bin/srv.rs harness/src/bin/initfs.rs lean/Fbr/InitFs.lean lean/Drv/InitFs.lean harness/src/scriptfs*.rs harness/src/srvgen.rs harness/src/srvoracle.rs harness/src/vq.rs",
     "serves_properties": ["C01", "C02", "C03", "C12", "C20"],
     "kind_free_text": "Lean 4 model of Server::handle_message / async_handle_message with invariant, decode, encode and equivalence theorems; differential harness over both transports with a scripted logging file system and independent request encoders / reply decoders"},
    {"name": "ptdir", "path": "lean/Fbr/PtDir*.lean lean/Fbr/Lemmas/PtDir*.lean lean/Drv/PtDir.lean harness/src/bin/ptdir.rs",
     "serves_properties": ["C16"], "kind_free_text": "Lean 4 model of passthrough/pseudo readdir with cookie cache; differential harness on real directories"},
    {"name": "ptseal", "path": "lean/Fbr/PtSeal*.lean lean/Fbr/Lemmas/PtSeal*.lean lean/Drv/PtSeal.lean harness/src/bin/ptseal.rs",
     "serves_properties": ["C15", "C18"], "kind_free_text": "Lean 4 model of the size-seal checks over a reference host; differential harness on real files"},
    {"name": "vfs", "path": "lean/Fbr/Vfs.lean lean/Fbr/Persist.lean lean/Fbr/VfsShow.lean lean/Fbr/Lemmas/Vfs*.lean lean/Drv/Vfs.lean harness/src/vfsrun.rs harness/src/bin/vfs.rs",
     "serves_properties": ["C07", "C12", "C14", "C19"],
     "kind_free_text": "Lean 4 model of the Vfs mount table, pseudo tree, id mapping, init/destroy, all request methods and save/restore, with invariants proved over arbitrary histories; differential harness running whole mount/umount/request/save/restore histories on the real Vfs (a third of the requests through Server::handle_message) with scripted logging backends"},
    {"name": "ovl", "path": "lean/Fbr/Ovl.lean lean/Fbr/OvlShow.lean lean/Fbr/Lemmas/Ovl*.lean lean/Drv/Ovl.lean harness/src/ovlhost.rs harness/src/bin/ovl.rs",
     "serves_properties": ["C10", "C11"],
     "kind_free_text": "Lean 4 model of OverlayFs (layers as path functions, merge specification, lazy directory loading, copy-up, whiteouts, opaque markers) with theorems over every disk and operation history; differential harness running histories on the real OverlayFs over PassthroughFs layers in temp directories, walking live and freshly constructed instances"},
    {"name": "pthost", "path": "lean/Fbr/Host.lean lean/Fbr/HostRef.lean lean/Fbr/PtHost*.lean lean/Fbr/Lemmas/HostRef*.lean lean/Fbr/Lemmas/PtHost*.lean lean/Drv/PtHost.lean harness/src/pthost/ harness/src/bin/pthost.rs",
     "serves_properties": ["C05", "C06", "C12"],
     "kind_free_text": "Lean 4 transducer model of PassthroughFs (request -> host calls -> reply) over a reference host file system with symlinks and an export inside a sentinel tree; theorems for every request and every reference-host state; differential harness on real directories, ptrace-free syscall comparison through observable effects"},
    {"name": "abi", "path": "lean/Fbr/Abi.lean lean/Fbr/AbiSpec.lean lean/Fbr/Conv.lean lean/Drv/Abi.lean harness/src/bin/abi_probe.rs translator/ tools/kernel_abi.py",
     "serves_properties": ["C13"],
     "kind_free_text": "Lean 4 theorems over tables regenerated from source (syn translator) and from the kernel header (C compiler); differential run of rustc's layouts / real conversion functions against the Lean model"},
]
NOTES = ("Technique: machine-checked proof in Lean 4. Every check (1) regenerates lean/Fbr/Gen from /repo's "
         "current source, (2) re-checks the property's theorem module with the Lean kernel and audits axioms, "
         "(3) rebuilds the Rust harness against /repo's working tree and diffs the real code against the "
         "model's executable definitions. See DESIGN.md.")
NOT_APPLICABLE = {}
import os, sys
sys.path.insert(0, os.path.dirname(os.path.abspath(__file__)))
from props import PROPS
META = {pid: cfg["manifest"] for pid, cfg in PROPS.items()}
