HOOKS = {
    "guard": "fuse_backend_rs_verif",
    "enable": "RUSTFLAGS='--cfg fuse_backend_rs_verif' (set in /verif/harness/.cargo/config.toml; the harness is a path-dependent crate on /repo)",
    "baseline_off_cmd": "cd /repo && cargo nextest run --workspace --no-fail-fast --test-threads 8 --offline || cargo test --workspace --no-fail-fast --offline",
    "source_commits": [],
    "add_only": True,
}
ENGINES = [
    {"name": "abi", "path": "lean/Fbr/Abi.lean lean/Fbr/AbiSpec.lean lean/Fbr/Conv.lean lean/Drv/Abi.lean harness/src/bin/abi_probe.rs translator/ tools/kernel_abi.py",
     "serves_properties": ["C13"],
     "kind_free_text": "Lean 4 theorems over tables regenerated from source (syn translator) and from the kernel header (C compiler); differential run of rustc's layouts / real conversion functions against the Lean model"},
]
NOTES = ("Technique: machine-checked proof in Lean 4. Every check (1) regenerates lean/Fbr/Gen from /repo's "
         "current source, (2) re-checks the property's theorem module with the Lean kernel and audits axioms, "
         "(3) rebuilds the Rust harness against /repo's working tree and diffs the real code against the "
         "model's executable definitions. See DESIGN.md.")
NOT_APPLICABLE = {}
import os, sys
sys.path.insert(0, os.path.dirname(os.path.abspath(__file__)))
from props import PROPS
META = {pid: cfg["manifest"] for pid, cfg in PROPS.items()}
