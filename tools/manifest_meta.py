HOOKS = {
    "guard": "fuse_backend_rs_verif",
    "enable": "RUSTFLAGS='--cfg fuse_backend_rs_verif' (set in /verif/harness/.cargo/config.toml; the harness is a path-dependent crate on /repo)",
    "baseline_off_cmd": "cd /repo && cargo nextest run --workspace --no-fail-fast --test-threads 8 --offline || cargo test --workspace --no-fail-fast --offline",
    "source_commits": [],
    "add_only": True,
}
ENGINES = [
    {"name": "xport", "path": "lean/Fbr/Xport.lean lean/Fbr/XportSys.lean lean/Fbr/XportSpec.lean lean/Fbr/Lemmas/Xport*.lean lean/Drv/Xport.lean harness/src/bin/xport.rs harness/src/xscript.rs harness/src/vq.rs",
     "serves_properties": ["C04", "C17"],
     "kind_free_text": "Lean 4 model of IoBuffers/Reader/VirtioFsWriter/FuseDevWriter/FileVolatileSlice and the dirty bitmap, refined to a flat address list + cursor, with invariants proved over arbitrary operation lists; differential harness over mock virtqueue chains in GuestMemoryMmap<AtomicBitmap> (page sizes 2/64/4096), a SOCK_SEQPACKET stand-in for /dev/fuse and scripted files with short counts"},
    {"name": "srv", "path": "lean/Fbr/Wire.lean lean/Fbr/Srv.lean lean/Fbr/SrvAsync.lean lean/Fbr/SrvShow.lean lean/Fbr/SrvSpec.lean lean/Fbr/Lemmas/Srv*.lean lean/Fbr/Lemmas/Wire.lean lean/Drv/Srv.lean lean/Drv/SrvAsync.lean harness/src/bin/srv.rs harness/src/scriptfs*.rs harness/src/srvgen.rs harness/src/srvoracle.rs harness/src/vq.rs",
     "serves_properties": ["C01", "C02", "C03", "C12", "C20"],
     "kind_free_text": "Lean 4 model of Server::handle_message / async_handle_message with invariant, decode, encode and equivalence theorems; differential harness over both transports with a scripted logging file system and independent request encoders / reply decoders"},
    {"name": "ptdir", "path": "lean/Fbr/PtDir*.lean lean/Fbr/Lemmas/PtDir*.lean lean/Drv/PtDir.lean harness/src/bin/ptdir.rs",
     "serves_properties": ["C16"], "kind_free_text": "Lean 4 model of passthrough/pseudo readdir with cookie cache; differential harness on real directories"},
    {"name": "ptseal", "path": "lean/Fbr/PtSeal*.lean lean/Fbr/Lemmas/PtSeal*.lean lean/Drv/PtSeal.lean harness/src/bin/ptseal.rs",
     "serves_properties": ["C18"], "kind_free_text": "Lean 4 model of the size-seal checks over a reference host; differential harness on real files"},
    {"name": "abi", "path": "lean/Fbr/Abi.lean lean/Fbr/AbiSpec.lean lean/Fbr/Conv.lean lean/Drv/Abi.lean harness/src/bin/abi_probe.rs translator/ tools/kernel_abi.py",
     "serves_properties": ["C13"],
     "kind_free_text": "Lean 4 theorems over tables regenerated from source (syn translator) and from the kernel header (C compiler); differential run of rustc's layouts / real conversion functions against the Lean model"},
]
NOTES = ("Technique: machine-checked proof in Lean 4. Every check (1) regenerates lean/Fbr/Gen from /repo's "
         "current source, (2) re-checks the property's theorem module with the Lean kernel and audits axioms, "
         "(3) rebuilds the Rust harness against /repo's working tree and diffs the real code against the "
         "model's executable definitions. See DESIGN.md.")
NOT_APPLICABLE = {}
import os, sys
sys.path.insert(0, os.path.dirname(os.path.abspath(__file__)))
from props import PROPS
META = {pid: cfg["manifest"] for pid, cfg in PROPS.items()}
