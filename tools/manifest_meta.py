HOOKS = {
    "guard": "fuse_backend_rs_verif",
    "enable": "RUSTFLAGS='--cfg fuse_backend_rs_verif' (set in /verif/harness/.cargo/config.toml; the harness is a path-dependent crate on /repo)",
    "baseline_off_cmd": "cd /repo && cargo nextest run --workspace --no-fail-fast --test-threads 8 --offline || cargo test --workspace --no-fail-fast --offline",
    "source_commits": [],
    "add_only": True,
}
ENGINES = [
    {"name": "abi", "path": "lean/Fbr/Abi.lean lean/Fbr/AbiSpec.lean lean/Fbr/Conv.lean lean/Drv/Abi.lean harness/src/bin/abi_probe.rs translator/ tools/kernel_abi.py",
     "serves_properties": ["C13"],
     "kind_free_text": "Lean 4 theorems over tables regenerated from source (syn translator) and from the kernel header (C compiler); differential run of rustc's layouts / real conversion functions against the Lean model"},
]
NOTES = ("Technique: machine-checked proof in Lean 4. Every check (1) regenerates lean/Fbr/Gen from /repo's "
         "current source, (2) re-checks the property's theorem module with the Lean kernel and audits axioms, "
         "(3) rebuilds the Rust harness against /repo's working tree and diffs the real code against the "
         "model's executable definitions. See DESIGN.md.")
NOT_APPLICABLE = {}
META = {
    "C13": {
        "engine": "abi",
        "design_ref": "DESIGN.md §6 C13",
        "technique": "Lean 4 theorems (decide +kernel over complete generated tables; case analysis over all naturals for Opcode::from) + translator from source + differential layout/conversion check",
        "text": "Kernel-checked theorems: every repr(C) structure of the ABI files has the kernel's size/offsets/widths "
                "(repr(C) layout function in Lean vs gcc's offsetof on the installed fuse.h), every constant/flag/opcode/"
                "notify code equals the kernel macro, Opcode::from is total over ALL u32 (proved for all naturals), "
                "stat<->attr conversions preserve every field (round-trip theorems with the exact fitting guards). "
                "The tables are regenerated from /repo's source on every run, so the theorems are re-checked against "
                "what the code says now; rustc's own size_of/offset_of! and the real From impls are diffed against the model.",
        "note": "Trusted: Lean kernel; axioms propext/Quot.sound/Classical.choice only; syn translator + gen_lean.py; gcc + "
                "/usr/include/linux/fuse.h 7.38 as the kernel's definition; the hand-written pairing tables in Fbr.AbiSpec; "
                "x86_64 libc::stat64 widths. Constants newer than the installed header (HAS_RESEND, NotifyOpcode::Resend) and the "
                "out-of-tree FD_PASSTHROUGH bit are listed as having no counterpart, not compared.",
    },
}
