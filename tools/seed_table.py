#!/usr/bin/env python3
"""tools/seed_table.py <k-from> <k-to> — markdown rows of DESIGN.md Appendix G from seeded/*/meta.json"""
import json, os, re, sys
ROOT = os.path.dirname(os.path.dirname(os.path.abspath(__file__)))
lo, hi = int(sys.argv[1]), int(sys.argv[2])
rows = []
for d in sorted(os.listdir(os.path.join(ROOT, "seeded"))):
    m = re.match(r"(C\d\d)-(\d+)$", d)
    if not m or not (lo <= int(m.group(2)) <= hi):
        continue
    mp = os.path.join(ROOT, "seeded", d, "meta.json")
    if not os.path.exists(mp):
        rows.append("| %s | (no meta) | |" % d)
        continue
    x = json.load(open(mp))
    title = re.sub(r"^C\d\d\s*[/—-]*\s*(seeded\s+)?(new\s+)?(defect|change)?\s*\(?[^:—–-]*?\)?\s*\d*\s*[:—–-]+\s*", "", x.get("breaks", ""), count=1, flags=re.I).strip() or x.get("breaks", "")
    title = title.replace("|", "/")[:110]
    cb = x.get("caught_by", "")
    if not x.get("detected"):
        c = "— **MISSED**"
    else:
        parts = []
        mt = re.search(r"theorem\(s\) no longer check: ([^;]*)", cb)
        if mt:
            parts.append("theorems " + mt.group(1))
        mk = re.search(r"direct oracle / replay kinds: C\d\d: (.*?)(?: \| |$|; correspondence)", cb)
        if mk:
            keys = [k.strip() for k in mk.group(1).split(";") if k.strip()]
            witness = any(k.startswith("concrete failing table rows") for k in keys)
            keys = [k for k in keys if not (k.startswith("proof obligation") or k == "no failing input found" or k.startswith("theorem no longer checks") or k.startswith("concrete failing table rows"))]
            keys = [k[:70] for k in keys]
            if keys:
                parts.append("; ".join(keys[:3]) + ("; …" if len(keys) > 3 else ""))
            if witness:
                parts.append("failing table rows listed by the witness search")
        if not parts:
            parts.append("correspondence only (`no-failing-input-found`)")
        elif len(parts) == 1 and parts[0].startswith("theorems") and "no-failing-input-found" in cb:
            parts.append("`no-failing-input-found`")
        c = "; ".join(parts)
    if "FIRST RUN" in x.get("note", ""):
        c += " **(first run missed — strengthened)**"
    rows.append("| %s | %s | %s |" % (d, title, c))
print("\n".join(rows))
