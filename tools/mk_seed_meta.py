#!/usr/bin/env python3
"""tools/mk_seed_meta.py <batch-log>... (in chronological order: a later log overrides an earlier one) — write seeded/<ID>-<k>/meta.json from tools/seed_batch.sh logs.

Does not overwrite a meta.json that carries "hand_written": true.  Notes for individual seeds
(first-run misses, what was strengthened) come from seeded/NOTES.json.
"""
import json, os, re, sys
ROOT = os.path.dirname(os.path.dirname(os.path.abspath(__file__)))
notes = {}
np = os.path.join(ROOT, "seeded", "NOTES.json")
if os.path.exists(np):
    notes = json.load(open(np))
cur = None
rec = {}
for log in sys.argv[1:]:
    for line in open(log, errors="replace"):
        line = line.rstrip("\n")
        m = re.match(r"=== (C\d\d-\d+)", line)
        if m:
            cur = m.group(1)
            prev_confirm = rec.get(cur, {}).get("confirm")
            rec[cur] = {"confirm": prev_confirm, "viol": 0, "nofail": False, "failing": [], "done": None, "keys": None, "known": 0}
            continue
        if cur is None:
            continue
        r = rec[cur]
        if line.startswith("CONFIRM"):
            r["confirm"] = re.sub(r"suite=\[test result: (\w+)\. (\d+) passed; (\d+) failed.*?\]", r"suite=\1(\2 passed, \3 failed)", line)
        elif line.startswith("VIOLATION"):
            r["viol"] += 1
            if line.endswith("no-failing-input-found"):
                r["nofail"] = True
        elif "failing:" in line:
            r["failing"] += re.findall(r"'([A-Za-z0-9_]+)'", line.split("failing:")[1])
        elif line.startswith("[check] done"):
            r["done"] = (r["done"] + " | " if r["done"] else "") + line[len("[check] "):]
        elif line.startswith("KEYS"):
            r["keys"] = (r["keys"] + " | " if r["keys"] else "") + line[5:]
        elif line.startswith("KNOWN-FINDING"):
            r["known"] += 1
for sid, r in sorted(rec.items()):
    d = os.path.join(ROOT, "seeded", sid)
    if not os.path.isdir(d):
        continue
    mp = os.path.join(d, "meta.json")
    if os.path.exists(mp):
        try:
            if json.load(open(mp)).get("hand_written"):
                continue
        except Exception:
            pass
    title = ""
    rp = os.path.join(d, "README.md")
    if os.path.exists(rp):
        for l in open(rp):
            if l.startswith("#"):
                title = l.lstrip("# ").strip()
                break
    detected = bool(r["done"]) and "exit=1" in r["done"]
    how = []
    if r["failing"]:
        how.append("theorem(s) no longer check: " + ", ".join(sorted(set(r["failing"]))))
    if r["keys"] and not r["keys"].endswith(": -"):
        how.append("direct oracle / replay kinds: " + r["keys"])
    if r["nofail"]:
        how.append("correspondence (model vs implementation) breaks; no direct-oracle failure: VIOLATION ... no-failing-input-found")
    if detected and not how:
        how.append("model/implementation mismatches and direct-oracle failures (see check_run)")
    meta = {
        "property": sid.split("-")[0],
        "breaks": title,
        "needs_to_manifest": "see README.md",
        "confirmed": r["confirm"] or "not confirmed",
        "check_run": "tools/run_isolated.sh seeded/%s/patch.diff %s -> %s" % (sid, sid.split("-")[0], r["done"]),
        "detected": detected,
        "caught_by": "; ".join(how) if detected else "MISSED",
    }
    if sid in notes:
        meta["note"] = notes[sid]
    json.dump(meta, open(mp, "w"), indent=1)
    print(sid, "detected" if detected else "MISSED", "|", meta["caught_by"][:150])
