#!/bin/sh
# tools/seed_batch.sh <out.log> <seed-dir>...   — confirm each seed and run its property's check isolated
OUT=$1; shift
for d in "$@"; do
  id=$(basename $d | cut -d- -f1)
  extra=""
  case $(basename $d) in C12-3) extra="C14 C07";; esac
  echo "=== $(basename $d)" >> $OUT
  tools/confirm_seed.sh $d >> $OUT 2>&1
  tools/run_isolated.sh $d/patch.diff $id $extra >> $OUT 2>&1
done
