//! Translator: reads /repo's current Rust source with `syn` and emits a JSON "facts" file
//! (tables only: ABI layouts, constants, opcode tables, dispatch arms, handler shapes,
//! name-check positions, panic-site counts).  `tools/gen_lean.py` turns the facts into
//! `lean/Fbr/Gen/*.lean`.  Nothing here is guessed: a construct the translator does not
//! understand is emitted as `{"unknown": "<tokens>"}` so that the Lean side cannot discharge
//! an obligation about it.
use quote::ToTokens;
use serde_json::{json, Map, Value};
use std::collections::BTreeMap;
use std::fs;
use syn::visit::{self, Visit};

fn toks<T: ToTokens>(t: &T) -> String {
    // normalised token string: single spaces between tokens
    t.to_token_stream().to_string()
}

// ---------------------------------------------------------------- constant evaluation

#[derive(Default)]
struct ConstEnv {
    vals: BTreeMap<String, u128>,
}

impl ConstEnv {
    fn eval(&self, e: &syn::Expr) -> Option<u128> {
        use syn::Expr::*;
        match e {
            Lit(l) => match &l.lit {
                syn::Lit::Int(i) => i.base10_parse::<u128>().ok(),
                _ => None,
            },
            Paren(p) => self.eval(&p.expr),
            Group(g) => self.eval(&g.expr),
            Cast(c) => {
                let v = self.eval(&c.expr)?;
                let ty = toks(&*c.ty);
                Some(match ty.as_str() {
                    "u8" => v & 0xff,
                    "u16" => v & 0xffff,
                    "u32" | "i32" => v & 0xffff_ffff,
                    "u64" | "i64" | "usize" => v & 0xffff_ffff_ffff_ffff,
                    _ => return None,
                })
            }
            Binary(b) => {
                let l = self.eval(&b.left)?;
                let r = self.eval(&b.right)?;
                use syn::BinOp::*;
                match b.op {
                    Shl(_) => l.checked_shl(r as u32),
                    Shr(_) => l.checked_shr(r as u32),
                    BitOr(_) => Some(l | r),
                    BitAnd(_) => Some(l & r),
                    Add(_) => l.checked_add(r),
                    Sub(_) => l.checked_sub(r),
                    Mul(_) => l.checked_mul(r),
                    Div(_) => l.checked_div(r),
                    _ => None,
                }
            }
            Path(p) => {
                let s = toks(p).replace(' ', "");
                match s.as_str() {
                    "u16::MAX" => return Some(u16::MAX as u128),
                    "u32::MAX" => return Some(u32::MAX as u128),
                    "u64::MAX" => return Some(u64::MAX as u128),
                    _ => {}
                }
                let last = p.path.segments.last()?.ident.to_string();
                self.vals.get(&last).copied()
            }
            _ => None,
        }
    }
}

// ---------------------------------------------------------------- ABI file

fn cfg_excluded(attrs: &[syn::Attribute]) -> bool {
    // drop items that are compiled only for macOS / tests
    for a in attrs {
        if a.path().is_ident("cfg") {
            let s = toks(&a.meta).replace(' ', "");
            if s.contains("target_os=\"macos\"") && !s.contains("not(") {
                return true;
            }
            if s == "cfg(test)" {
                return true;
            }
        }
    }
    false
}

fn abi_facts(path: &str, env: &mut ConstEnv) -> Value {
    let src = fs::read_to_string(path).unwrap_or_else(|e| panic!("read {}: {}", path, e));
    let file = syn::parse_file(&src).unwrap_or_else(|e| panic!("parse {}: {}", path, e));
    let mut structs = Vec::new();
    let mut consts = Vec::new();
    let mut bitflags = Vec::new();
    let mut enums = Vec::new();
    let mut from_u32 = Vec::new();
    let mut convs = Vec::new();

    // pass 1: consts (in order, so references resolve)
    for item in &file.items {
        if let syn::Item::Const(c) = item {
            if cfg_excluded(&c.attrs) {
                continue;
            }
            let name = c.ident.to_string();
            let ty = toks(&*c.ty);
            match env.eval(&c.expr) {
                Some(v) => {
                    env.vals.insert(name.clone(), v);
                    consts.push(json!({"name": name, "ty": ty, "value": v.to_string(),
                        "public": matches!(c.vis, syn::Visibility::Public(_))}));
                }
                None => consts.push(json!({"name": name, "ty": ty, "unknown": toks(&*c.expr)})),
            }
        }
    }
    for item in &file.items {
        match item {
            syn::Item::Struct(s) => {
                if cfg_excluded(&s.attrs) {
                    continue;
                }
                let repr = s
                    .attrs
                    .iter()
                    .filter(|a| a.path().is_ident("repr"))
                    .map(|a| toks(&a.meta).replace(' ', ""))
                    .collect::<Vec<_>>()
                    .join(",");
                let mut fields = Vec::new();
                if let syn::Fields::Named(n) = &s.fields {
                    for f in &n.named {
                        fields.push(json!({
                            "name": f.ident.as_ref().unwrap().to_string(),
                            "ty": type_desc(&f.ty, env),
                        }));
                    }
                }
                structs.push(json!({"name": s.ident.to_string(), "repr": repr, "fields": fields}));
            }
            syn::Item::Enum(e) => {
                if cfg_excluded(&e.attrs) {
                    continue;
                }
                let mut vars = Vec::new();
                let mut next: u128 = 0;
                for v in &e.variants {
                    if let Some((_, d)) = &v.discriminant {
                        if let Some(x) = env.eval(d) {
                            next = x;
                        }
                    }
                    vars.push(json!({"name": v.ident.to_string(), "value": next.to_string()}));
                    next += 1;
                }
                let repr = e
                    .attrs
                    .iter()
                    .filter(|a| a.path().is_ident("repr"))
                    .map(|a| toks(&a.meta).replace(' ', ""))
                    .collect::<Vec<_>>()
                    .join(",");
                enums.push(json!({"name": e.ident.to_string(), "repr": repr, "variants": vars}));
            }
            syn::Item::Macro(m) => {
                if m.mac.path.is_ident("bitflags") {
                    if let Some(b) = parse_bitflags(&m.mac.tokens, env) {
                        bitflags.push(b);
                    }
                }
            }
            syn::Item::Impl(im) => {
                if cfg_excluded(&im.attrs) {
                    continue;
                }
                let self_ty = toks(&*im.self_ty);
                let tr = im.trait_.as_ref().map(|(_, p, _)| toks(p).replace(' ', ""));
                for it in &im.items {
                    if let syn::ImplItem::Fn(f) = it {
                        let fname = f.sig.ident.to_string();
                        if tr.as_deref() == Some("From<u32>") && fname == "from" {
                            from_u32.push(json!({"ty": self_ty, "arms": match_arms(&f.block)}));
                        } else if fname == "from" || fname == "with_flags" {
                            convs.push(json!({
                                "self_ty": self_ty,
                                "trait": tr,
                                "fn": fname,
                                "assigns": conv_assigns(&f.block),
                            }));
                        }
                    }
                }
            }
            _ => {}
        }
    }
    json!({"file": path, "structs": structs, "consts": consts, "bitflags": bitflags,
           "enums": enums, "from_u32": from_u32, "convs": convs})
}

fn type_desc(t: &syn::Type, env: &ConstEnv) -> Value {
    match t {
        syn::Type::Array(a) => {
            let n = env.eval(&a.len).map(|v| v.to_string()).unwrap_or_else(|| toks(&a.len));
            json!({"array": type_desc(&a.elem, env), "len": n})
        }
        _ => json!(toks(t).replace(' ', "")),
    }
}

fn parse_bitflags(ts: &proc_macro2::TokenStream, env: &ConstEnv) -> Option<Value> {
    // bitflags! { [attrs] pub struct Name: ty { [attrs] const A = expr; ... } }
    use proc_macro2::TokenTree as TT;
    let v: Vec<TT> = ts.clone().into_iter().collect();
    let mut i = 0;
    let mut name = None;
    let mut ty = None;
    let mut body = None;
    while i < v.len() {
        if let TT::Ident(id) = &v[i] {
            if id == "struct" {
                if let Some(TT::Ident(n)) = v.get(i + 1) {
                    name = Some(n.to_string());
                }
                if let Some(TT::Ident(t)) = v.get(i + 3) {
                    ty = Some(t.to_string());
                }
                if let Some(TT::Group(g)) = v.get(i + 4) {
                    body = Some(g.stream());
                }
                break;
            }
        }
        i += 1;
    }
    let body: Vec<TT> = body?.into_iter().collect();
    let mut flags = Vec::new();
    let mut j = 0;
    while j < body.len() {
        if let TT::Ident(id) = &body[j] {
            if id == "const" {
                let fname = body.get(j + 1)?.to_string();
                // tokens after '=' up to ';'
                let mut k = j + 3;
                let mut expr = proc_macro2::TokenStream::new();
                while k < body.len() {
                    if let TT::Punct(p) = &body[k] {
                        if p.as_char() == ';' {
                            break;
                        }
                    }
                    expr.extend(std::iter::once(body[k].clone()));
                    k += 1;
                }
                let val = syn::parse2::<syn::Expr>(expr.clone()).ok().and_then(|e| env.eval(&e));
                match val {
                    Some(x) => flags.push(json!({"name": fname, "value": x.to_string()})),
                    None => flags.push(json!({"name": fname, "unknown": expr.to_string()})),
                }
                j = k;
            }
        }
        j += 1;
    }
    Some(json!({"name": name?, "ty": ty?, "flags": flags}))
}

fn match_arms(b: &syn::Block) -> Value {
    // the body is a single `match op { lit => Path, ..., _ => Path }`
    struct V(Vec<Value>);
    impl<'a> Visit<'a> for V {
        fn visit_expr_match(&mut self, m: &'a syn::ExprMatch) {
            for arm in &m.arms {
                let pat = toks(&arm.pat).replace(' ', "");
                let body = toks(&*arm.body).replace(' ', "");
                let has_guard = arm.guard.is_some();
                self.0.push(json!({"pat": pat, "body": body, "guard": has_guard}));
            }
        }
    }
    let mut v = V(Vec::new());
    v.visit_block(b);
    Value::Array(v.0)
}

fn conv_assigns(b: &syn::Block) -> Value {
    // either a struct literal `T { f: expr, ... }` or a series of `out.f = expr;`
    struct V(Vec<Value>);
    impl<'a> Visit<'a> for V {
        fn visit_expr_struct(&mut self, s: &'a syn::ExprStruct) {
            for f in &s.fields {
                self.0.push(json!({"field": toks(&f.member), "expr": toks(&f.expr).replace(' ', "")}));
            }
            if let Some(r) = &s.rest {
                self.0.push(json!({"field": "..", "expr": toks(&**r).replace(' ', "")}));
            }
        }
        fn visit_expr_assign(&mut self, a: &'a syn::ExprAssign) {
            self.0.push(json!({"field": toks(&*a.left).replace(' ', ""),
                               "expr": toks(&*a.right).replace(' ', "")}));
        }
    }
    let mut v = V(Vec::new());
    v.visit_block(b);
    Value::Array(v.0)
}

// ---------------------------------------------------------------- function shapes

/// Shape of one function: calls on `self.fs` (or any receiver chain ending in a listed
/// field), `read_obj` destructuring patterns, helper calls, reply calls, potential panic sites.
#[derive(Default)]
struct FnShape {
    fs_calls: Vec<Value>,
    reads: Vec<Value>,
    helpers: Vec<Value>,
    replies: Vec<Value>,
    lets: Vec<Value>,
    method_calls: Vec<String>,
    first_stmt: String,
    panic_sites: BTreeMap<String, u64>,
}

struct ShapeVisitor<'x> {
    s: &'x mut FnShape,
}

fn is_self_fs(e: &syn::Expr) -> bool {
    let s = toks(e).replace(' ', "");
    s == "self.fs" || s == "self.0" || s == "self"
}

impl<'a, 'x> Visit<'a> for ShapeVisitor<'x> {
    fn visit_expr_method_call(&mut self, m: &'a syn::ExprMethodCall) {
        let name = m.method.to_string();
        let recv = toks(&*m.receiver).replace(' ', "");
        self.s.method_calls.push(format!("{}.{}", recv, name));
        if recv == "self.fs" {
            let args: Vec<String> = m.args.iter().map(|a| toks(a).replace(' ', "")).collect();
            self.s.fs_calls.push(json!({"method": name, "args": args}));
        }
        if name.starts_with("reply_") || name == "handle_attr_result" {
            let args: Vec<String> = m.args.iter().map(|a| toks(a).replace(' ', "")).collect();
            self.s.replies.push(json!({"fn": name, "args": args}));
        }
        if name == "unwrap" || name == "expect" {
            *self.s.panic_sites.entry(name.clone()).or_default() += 1;
        }
        let _ = is_self_fs;
        visit::visit_expr_method_call(self, m);
    }
    fn visit_expr_call(&mut self, c: &'a syn::ExprCall) {
        let f = toks(&*c.func).replace(' ', "");
        if f.ends_with("get_message_body")
            || f.ends_with("extract_two_cstrs")
            || f.ends_with("bytes_to_cstr")
            || f.ends_with("validate_path_component")
            || f.ends_with("add_dirent")
        {
            let args: Vec<String> = c.args.iter().map(|a| toks(a).replace(' ', "")).collect();
            self.s.helpers.push(json!({"fn": f, "args": args}));
        }
        visit::visit_expr_call(self, c);
    }
    fn visit_local(&mut self, l: &'a syn::Local) {
        if let Some(init) = &l.init {
            let e = toks(&*init.expr).replace(' ', "");
            if e.contains("read_obj") {
                self.s.reads.push(json!({"pat": toks(&l.pat).replace(' ', ""), "expr": e}));
            }
            self.s.lets.push(json!({"pat": toks(&l.pat).replace(' ', ""), "expr": e}));
        }
        visit::visit_local(self, l);
    }
    fn visit_expr_index(&mut self, i: &'a syn::ExprIndex) {
        *self.s.panic_sites.entry("index".into()).or_default() += 1;
        visit::visit_expr_index(self, i);
    }
    fn visit_expr_binary(&mut self, b: &'a syn::ExprBinary) {
        use syn::BinOp::*;
        match b.op {
            Add(_) | Sub(_) | Mul(_) | AddAssign(_) | SubAssign(_) | MulAssign(_) => {
                *self.s.panic_sites.entry("arith".into()).or_default() += 1;
            }
            Div(_) | Rem(_) => {
                *self.s.panic_sites.entry("div".into()).or_default() += 1;
            }
            _ => {}
        }
        visit::visit_expr_binary(self, b);
    }
    fn visit_macro(&mut self, m: &'a syn::Macro) {
        let n = toks(&m.path).replace(' ', "");
        if n == "assert" || n == "assert_eq" || n == "panic" || n == "unreachable" || n == "unimplemented" || n == "todo" {
            *self.s.panic_sites.entry(n).or_default() += 1;
        }
        visit::visit_macro(self, m);
    }
}

fn fn_shapes(path: &str) -> Value {
    let src = match fs::read_to_string(path) {
        Ok(s) => s,
        Err(_) => return json!({"file": path, "missing": true}),
    };
    let file = syn::parse_file(&src).unwrap_or_else(|e| panic!("parse {}: {}", path, e));
    let mut out = Vec::new();
    fn do_fn(
        out: &mut Vec<Value>,
        ctx: &str,
        trait_: Option<String>,
        attrs: &[syn::Attribute],
        sig: &syn::Signature,
        block: &syn::Block,
    ) {
        if cfg_excluded(attrs) {
            return;
        }
        let mut s = FnShape::default();
        if let Some(st) = block.stmts.first() {
            s.first_stmt = toks(st).replace(' ', "");
        }
        ShapeVisitor { s: &mut s }.visit_block(block);
        let cfgs: Vec<String> = attrs
            .iter()
            .filter(|a| a.path().is_ident("cfg"))
            .map(|a| toks(&a.meta).replace(' ', ""))
            .collect();
        let params: Vec<String> = sig
            .inputs
            .iter()
            .map(|a| match a {
                syn::FnArg::Receiver(_) => "self".to_string(),
                syn::FnArg::Typed(t) => toks(&*t.pat).replace(' ', ""),
            })
            .collect();
        out.push(json!({
            "impl": ctx, "trait": trait_, "fn": sig.ident.to_string(), "cfg": cfgs,
            "params": params,
            "fs_calls": s.fs_calls, "reads": s.reads, "helpers": s.helpers, "replies": s.replies, "lets": s.lets,
            "method_calls": s.method_calls, "first_stmt": s.first_stmt,
            // (pthost engine, C06) the first three statements, in order
            "lead_stmts": block.stmts.iter().take(3).map(|st| toks(st).replace(' ', "")).collect::<Vec<String>>(),
            "panic_sites": s.panic_sites,
        }));
    }
    fn walk(items: &[syn::Item], out: &mut Vec<Value>) {
        for item in items {
            match item {
                syn::Item::Impl(im) => {
                    if cfg_excluded(&im.attrs) {
                        continue;
                    }
                    let ctx = toks(&*im.self_ty).replace(' ', "");
                    let tr = im.trait_.as_ref().map(|(_, p, _)| toks(p).replace(' ', ""));
                    for it in &im.items {
                        if let syn::ImplItem::Fn(f) = it {
                            do_fn(out, &ctx, tr.clone(), &f.attrs, &f.sig, &f.block);
                        }
                    }
                }
                syn::Item::Fn(f) => {
                    do_fn(out, "", None, &f.attrs, &f.sig, &f.block);
                }
                syn::Item::Trait(t) => {
                    // the methods a trait declares (impl = "trait:<Name>"); a method without a
                    // default body has an empty first statement
                    if cfg_excluded(&t.attrs) {
                        continue;
                    }
                    let ctx = format!("trait:{}", t.ident);
                    for it in &t.items {
                        if let syn::TraitItem::Fn(f) = it {
                            let empty = syn::Block { brace_token: Default::default(), stmts: vec![] };
                            do_fn(out, &ctx, None, &f.attrs, &f.sig, f.default.as_ref().unwrap_or(&empty));
                        }
                    }
                }
                syn::Item::Mod(m) => {
                    if cfg_excluded(&m.attrs) {
                        continue;
                    }
                    if let Some((_, items)) = &m.content {
                        walk(items, out);
                    }
                }
                _ => {}
            }
        }
    }
    walk(&file.items, &mut out);

    // dispatch arms: every `match` whose arms have the shape `x if x == Opcode::V as u32 => body`
    struct D(Vec<Value>, String);
    impl<'a> Visit<'a> for D {
        fn visit_impl_item_fn(&mut self, f: &'a syn::ImplItemFn) {
            if cfg_excluded(&f.attrs) {
                return;
            }
            let old = std::mem::replace(&mut self.1, f.sig.ident.to_string());
            visit::visit_impl_item_fn(self, f);
            self.1 = old;
        }
        fn visit_item_mod(&mut self, m: &'a syn::ItemMod) {
            if cfg_excluded(&m.attrs) {
                return;
            }
            visit::visit_item_mod(self, m);
        }
        fn visit_expr_match(&mut self, m: &'a syn::ExprMatch) {
            for arm in &m.arms {
                if let Some((_, g)) = &arm.guard {
                    let gs = toks(&**g).replace(' ', "");
                    if gs.contains("Opcode::") {
                        let cfgs: Vec<String> = arm
                            .attrs
                            .iter()
                            .filter(|a| a.path().is_ident("cfg"))
                            .map(|a| toks(&a.meta).replace(' ', ""))
                            .collect();
                        self.0.push(json!({"in_fn": self.1, "guard": gs,
                            "body": toks(&*arm.body).replace(' ', ""), "cfg": cfgs}));
                    }
                }
            }
            visit::visit_expr_match(self, m);
        }
    }
    let mut d = D(Vec::new(), String::new());
    d.visit_file(&file);

    // consts in this file
    let mut env = ConstEnv::default();
    let mut consts = Vec::new();
    for item in &file.items {
        if let syn::Item::Const(c) = item {
            if cfg_excluded(&c.attrs) {
                continue;
            }
            match env.eval(&c.expr) {
                Some(v) => {
                    env.vals.insert(c.ident.to_string(), v);
                    consts.push(json!({"name": c.ident.to_string(), "value": v.to_string()}));
                }
                None => consts.push(json!({"name": c.ident.to_string(), "unknown": toks(&*c.expr)})),
            }
        }
    }
    json!({"file": path, "fns": out, "dispatch": d.0, "consts": consts})
}

fn main() {
    let args: Vec<String> = std::env::args().collect();
    let repo = args.get(1).cloned().unwrap_or_else(|| "/repo".into());
    let outp = args.get(2).cloned().unwrap_or_else(|| "facts.json".into());
    let mut env = ConstEnv::default();
    let mut root = Map::new();
    root.insert("abi_linux".into(), abi_facts(&format!("{}/src/abi/fuse_abi_linux.rs", repo), &mut env));
    root.insert("abi_virtio".into(), abi_facts(&format!("{}/src/abi/virtio_fs.rs", repo), &mut env));
    root.insert("filesystem_mod".into(), abi_facts(&format!("{}/src/api/filesystem/mod.rs", repo), &mut env));
    let mut shapes = Map::new();
    for f in [
        "src/api/server/mod.rs",
        "src/api/server/sync_io.rs",
        "src/api/server/async_io.rs",
        "src/api/vfs/mod.rs",
        "src/api/vfs/sync_io.rs",
        "src/api/pseudo_fs.rs",
        "src/passthrough/mod.rs",
        "src/passthrough/sync_io.rs",
        "src/passthrough/inode_store.rs",
        "src/passthrough/util.rs",
        "src/transport/mod.rs",
        "src/transport/fusedev/mod.rs",
        "src/transport/virtiofs/mod.rs",
        "src/common/file_buf.rs",
        "src/lib.rs",
        "src/overlayfs/mod.rs",
        "src/overlayfs/sync_io.rs",
        "src/api/filesystem/sync_io.rs",
        "src/api/filesystem/async_io.rs",
    ] {
        shapes.insert(f.to_string(), fn_shapes(&format!("{}/{}", repo, f)));
    }
    root.insert("shapes".into(), Value::Object(shapes));
    // match arms of `encode_io_error_kind` (src/lib.rs)
    {
        let path = format!("{}/src/lib.rs", repo);
        let src = fs::read_to_string(&path).unwrap_or_default();
        let mut arms = Value::Array(vec![]);
        if let Ok(file) = syn::parse_file(&src) {
            for item in &file.items {
                if let syn::Item::Fn(f) = item {
                    if f.sig.ident == "encode_io_error_kind" {
                        arms = match_arms(&f.block);
                    }
                }
            }
        }
        root.insert("encode_arms".into(), arms);
    }
    fs::write(&outp, serde_json::to_string_pretty(&Value::Object(root)).unwrap()).unwrap();
}
