#!/bin/sh
# Build the framework from files on disk only (offline).  Idempotent.
set -e
cd "$(dirname "$0")"
export CARGO_NET_OFFLINE=true
mkdir -p .work evidence replays
(cd translator && cargo build --offline --release --target-dir ../.work/target/translator)
.work/target/translator/release/fbr-translator /repo .work/facts.json
python3 tools/kernel_abi.py .work/kernel.json .work/kprobe
python3 tools/gen_lean.py .work/facts.json .work/kernel.json lean/Fbr/Gen
python3 tools/gen_probe.py .work/facts.json harness/src/gen_layout.rs
# every theorem module and every driver named by a property configuration
TARGETS=$(python3 - <<'PY'
import sys
sys.path.insert(0, "tools")
from props import PROPS
t = set()
for cfg in PROPS.values():
    t.add(cfg["thm"])
    for s in cfg["stages"]:
        if s.get("driver"):
            t.add(s["driver"])
    if cfg.get("witness"):
        t.add(cfg["witness"]["driver"])
print(" ".join(sorted(t)))
PY
)
(cd lean && lake build $TARGETS)
(cd harness && cargo build --offline --bins)
