#!/bin/sh
# Build the framework from files on disk only (offline).  Idempotent.
set -e
cd "$(dirname "$0")"
# a restore may run this with another HOME: pin the toolchain homes of this image
. ./tools/env.sh
export CARGO_NET_OFFLINE=true
mkdir -p .work evidence replays
(cd translator && cargo build --offline --release --target-dir ../.work/target/translator)
.work/target/translator/release/fbr-translator /repo .work/facts.json
python3 tools/kernel_abi.py .work/kernel.json .work/kprobe
python3 tools/gen_lean.py .work/facts.json .work/kernel.json lean/Fbr/Gen
python3 tools/gen_probe.py .work/facts.json harness/src/gen_layout.rs
# every theorem module and every driver named by a property configuration
TARGETS=$(python3 - <<'PY'
import sys
sys.path.insert(0, "tools")
from props import PROPS
t = set()
for cfg in PROPS.values():
    t.add(cfg["thm"])
    for s in cfg["stages"]:
        if s.get("driver"):
            t.add(s["driver"])
    if cfg.get("witness"):
        t.add(cfg["witness"]["driver"])
print(" ".join(sorted(t)))
PY
)
# one target that does not build must not keep the other properties from being checked: each
# ./check <ID> rebuilds what it needs and reports its own failure
(cd lean && lake build $TARGETS) || {
  for t in $TARGETS; do
    (cd lean && lake build "$t" >/dev/null 2>&1) || echo "setup: lean target $t does not build (its check will report it)"
  done
}
(cd harness && cargo build --offline --bins) || echo "setup: harness does not build completely (the checks will report it)"
